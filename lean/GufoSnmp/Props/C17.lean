import GufoSnmp.Lemmas.Minimal
/-!
# C17 — oversized requests fail cleanly; buffer code stays in bounds

Histories: every finite sequence of buffer operations. Requests: every v1 / v2c request
(the v3 case is `Props/C03`): the encoder returns `OutOfBuffer` exactly when the encoding does
not fit the capacity, and otherwise the buffer holds the complete encoding.
-/
namespace GufoSnmp.C17
open GufoSnmp Gen Outcome

/-- the public operations of `Buffer` (`skipFill d` = `skip(d.len())` followed by writing `d`
through `data_mut()`, the only way the library itself uses `skip`) -/
inductive BufOp where
  | push (c : Bytes)
  | pushU8 (v : UInt8)
  | pushTagLen (tag : UInt8) (v : Nat)
  | pushTagged (tag : UInt8) (d : Bytes)
  | skip (n : Nat)
  | skipFill (d : Bytes)
  | reset
  | setBookmark (delta : Nat)
  deriving Repr

/-- state after an operation; a failing operation leaves what Rust leaves -/
def keep (b : Buf) : Outcome Buf → Buf
  | .ok b' => b'
  | _ => b

def applyOp (b : Buf) : BufOp → Buf
  | .push c => keep b (b.push c)
  | .pushU8 v => keep b (b.pushU8 v)
  | .pushTagLen t v => keep b (b.pushTagLen t v)
  | .pushTagged t d =>
    match b.push d with
    | .ok b1 => keep b1 (b1.pushTagLen t d.length)
    | _ => b
  | .skip n => b.skip n
  | .skipFill d => (b.skip d.length).overwrite d
  | .reset => b.reset
  | .setBookmark d => keep b (b.setBookmark d)

theorem keep_spec_inv {b : Buf} {e : Bytes} (hb : b.Inv) : (keep b (specOut b e)).Inv := by
  unfold specOut
  split
  · simp only [keep, Buf.Inv]; have := Buf.prepend_len b e; simp only [Buf.len] at *; omega
  · exact hb

theorem skip_inv (b : Buf) (n : Nat) (hb : b.Inv) : (b.skip n).Inv := by
  simp only [Buf.Inv, Buf.skip, Buf.pos, List.length_append, List.length_replicate] at *; omega

theorem overwrite_len (b : Buf) (d : Bytes) : (b.overwrite d).cells.length = b.cells.length := by
  simp only [Buf.overwrite, List.length_append, List.length_map, List.length_take, List.length_drop]; omega

theorem applyOp_inv (b : Buf) (hb : b.Inv) (op : BufOp) : (applyOp b op).Inv := by
  cases op with
  | push c => simp only [applyOp]; rw [push_spec b hb]; exact keep_spec_inv hb
  | pushU8 v => simp only [applyOp]; rw [pushU8_spec b hb]; exact keep_spec_inv hb
  | pushTagLen t v => simp only [applyOp]; rw [pushTagLen_spec b hb]; exact keep_spec_inv hb
  | pushTagged t d =>
    simp only [applyOp]
    rw [push_spec b hb]
    unfold specOut
    by_cases hf : b.len + d.length ≤ Buf.cap
    · rw [if_pos hf]
      have hi : (b.prepend d).Inv := by
        have hl : b.len = b.cells.length := rfl
        simp only [Buf.Inv]; have := Buf.prepend_len b d; simp only [Buf.len] at *; omega
      simp only
      rw [pushTagLen_spec _ hi]
      exact keep_spec_inv hi
    · rw [if_neg hf]; exact hb
  | skip n => exact skip_inv b n hb
  | skipFill d =>
    simp only [applyOp, Buf.Inv]; rw [overwrite_len]; exact skip_inv b _ hb
  | reset => simp [applyOp, Buf.reset, Buf.Inv]
  | setBookmark d =>
    simp only [applyOp, Buf.setBookmark]
    split
    · exact hb
    · exact hb

/-- **C17.inv**: no sequence of buffer operations moves `pos` outside `[0, MAX_SIZE]` — every
index the unsafe code forms (`pos - 1`, `pos - len`, `data[pos..]`) is inside the array. -/
theorem inv (ops : List BufOp) : (ops.foldl applyOp Buf.empty).Inv := by
  have h0 : Buf.empty.Inv := by simp [Buf.Inv, Buf.empty]
  generalize Buf.empty = b at h0
  induction ops generalizing b with
  | nil => exact h0
  | cons op rest ih => exact ih _ (applyOp_inv b h0 op)

/-- the operations the library itself performs (no bare `skip`) -/
def BufOp.Lib : BufOp → Prop
  | .skip _ => False
  | _ => True

theorem keep_spec_written {b : Buf} {e : Bytes} (hw : b.Written) : (keep b (specOut b e)).Written := by
  unfold specOut
  split
  · intro c hc
    simp only [keep, Buf.prepend, List.mem_append, List.mem_map] at hc
    rcases hc with ⟨x, _, rfl⟩ | hc
    · rfl
    · exact hw c hc
  · exact hw

theorem applyOp_written (b : Buf) (hb : b.Inv) (hw : b.Written) (op : BufOp) (hl : op.Lib) :
    (applyOp b op).Written := by
  cases op with
  | push c => simp only [applyOp]; rw [push_spec b hb]; exact keep_spec_written hw
  | pushU8 v => simp only [applyOp]; rw [pushU8_spec b hb]; exact keep_spec_written hw
  | pushTagLen t v => simp only [applyOp]; rw [pushTagLen_spec b hb]; exact keep_spec_written hw
  | pushTagged t d =>
    simp only [applyOp]
    rw [push_spec b hb]
    unfold specOut
    by_cases hf : b.len + d.length ≤ Buf.cap
    · rw [if_pos hf]
      have hi : (b.prepend d).Inv := by
        have hl : b.len = b.cells.length := rfl
        simp only [Buf.Inv]; have := Buf.prepend_len b d; simp only [Buf.len] at *; omega
      have hw1 : (b.prepend d).Written := by
        intro c hc
        simp only [Buf.prepend, List.mem_append, List.mem_map] at hc
        rcases hc with ⟨x, _, rfl⟩ | hc
        · rfl
        · exact hw c hc
      simp only
      rw [pushTagLen_spec _ hi]
      exact keep_spec_written hw1
    · rw [if_neg hf]; exact hw
  | skip n => exact absurd hl (by simp [BufOp.Lib])
  | skipFill d =>
    simp only [applyOp]
    intro c hc
    simp only [Buf.overwrite, Buf.skip, List.mem_append, List.mem_map] at hc
    rcases hc with ⟨x, _, rfl⟩ | hc
    · rfl
    · -- the untouched part lies beyond the freshly exposed cells
      rw [List.drop_append] at hc
      simp only [List.mem_append] at hc
      rcases hc with hc | hc
      · have hnil : (List.replicate (min d.length b.pos) (none : Option UInt8)).drop
            (min d.length (List.replicate (min d.length b.pos) (none : Option UInt8) ++ b.cells).length) = [] := by
          apply List.drop_eq_nil_of_le
          simp only [List.length_append, List.length_replicate]; omega
        rw [hnil] at hc; cases hc
      · exact hw c (List.mem_of_mem_drop hc)
  | reset =>
    intro c hc; simp [applyOp, Buf.reset] at hc
  | setBookmark d =>
    simp only [applyOp, Buf.setBookmark]
    split <;> exact hw

/-- **C17.written**: under the operations the library uses, `data()` never exposes a cell that
was not written. -/
theorem written (ops : List BufOp) (hl : ∀ op ∈ ops, op.Lib) :
    (ops.foldl applyOp Buf.empty).Written := by
  have h0 : Buf.empty.Inv ∧ Buf.empty.Written := ⟨by simp [Buf.Inv, Buf.empty], by
    intro c hc; simp [Buf.empty] at hc⟩
  generalize Buf.empty = b at h0
  induction ops generalizing b with
  | nil => exact h0.2
  | cons op rest ih =>
    exact ih (fun o ho => hl o (by simp [ho])) _
      ⟨applyOp_inv b h0.1 op, applyOp_written b h0.1 h0.2 op (hl op (by simp))⟩

/-- **C17.skip_exposes**: the bare public `skip` does expose unwritten cells (a hazard of the
`pub` API; no call site of the library does this). -/
theorem skip_exposes : ¬ (applyOp Buf.empty (.skip 1)).Written := by
  intro h
  have := h none (by simp [applyOp, Buf.skip, Buf.empty, Buf.pos, Buf.cap, bufMaxSize])
  cases this

/-- **C17.push_exact**: `push` fails with `OutOfBuffer` exactly when the chunk is longer than the
free space and changes nothing else; otherwise the chunk sits in front of the old content and the
free space shrank by its length. -/
theorem push_exact (b : Buf) (chunk : Bytes) :
    (b.pos < chunk.length → b.push chunk = .err .OutOfBuffer) ∧
    (chunk.length ≤ b.pos → ∃ b', b.push chunk = .ok b' ∧ b'.cells = chunk.map some ++ b.cells ∧
      b'.bookmark = b.bookmark ∧ b'.pos = b.pos - chunk.length ∧ b'.len = b.len + chunk.length) := by
  refine ⟨fun h => by simp only [Buf.push, h, if_true], fun h => ?_⟩
  have hn : ¬ b.pos < chunk.length := by omega
  refine ⟨{ b with cells := chunk.map some ++ b.cells }, by simp only [Buf.push, hn, if_false], rfl, rfl, ?_, ?_⟩
  · simp only [Buf.pos, List.length_append, List.length_map] at *; omega
  · simp only [Buf.len, List.length_append, List.length_map]; omega

/-- **C17.bookmark_measures**: the bookmark arithmetic cannot underflow in the way the library uses
it — set the bookmark `delta` behind the write position, push any chunks that fit, and
`get_bookmark()` is `delta` plus the number of octets pushed since, never a panic. -/
theorem bookmark_measures (b b1 : Buf) (delta : Nat) (chunks : List Bytes)
    (h1 : b.setBookmark delta = .ok b1) (b2 : Buf)
    (h2 : chunks.foldlM (fun (acc : Buf) c => acc.push c) b1 = .ok b2) (hb : b.cells.length ≤ Buf.cap) :
    b2.getBookmark = .ok (delta + (chunks.map List.length).sum) := by
  have hb1 : b1.bookmark = b1.pos + delta ∧ b1.cells.length ≤ Buf.cap := by
    unfold Buf.setBookmark at h1
    split at h1
    · cases h1; exact ⟨rfl, hb⟩
    · cases h1
  clear h1
  obtain ⟨hbm, hc⟩ := hb1
  have H : ∀ (chunks : List Bytes) (acc : Buf) (n : Nat), acc.bookmark = acc.pos + delta + n →
      acc.cells.length ≤ Buf.cap →
      chunks.foldlM (fun (acc : Buf) c => acc.push c) acc = .ok b2 →
      b2.getBookmark = .ok (delta + n + (chunks.map List.length).sum) := by
    clear h2
    intro chunks
    induction chunks with
    | nil =>
      intro acc n ha _ h
      simp only [List.foldlM_nil, pure] at h
      cases h
      simp only [Buf.getBookmark, usub, List.map_nil, List.sum_nil, Nat.add_zero]
      have : b2.pos ≤ b2.bookmark := by omega
      rw [if_pos this]
      exact congrArg Outcome.ok (by omega)
    | cons c cs ih =>
      intro acc n ha hcap h
      simp only [List.foldlM_cons] at h
      obtain ⟨a1, hp, hrest⟩ := Outcome.bind_eq_ok h
      by_cases hfit : acc.pos < c.length
      · rw [(push_exact acc c).1 hfit] at hp; cases hp
      · obtain ⟨b', hb', hcells, hbk, hpos, _⟩ := (push_exact acc c).2 (by omega)
        rw [hb'] at hp; cases hp
        have := ih a1 (n + c.length) (by rw [hbk, hpos, ha]; omega)
          (by rw [hcells]; simp only [List.length_append, List.length_map, Buf.pos] at *; omega) hrest
        rw [this]; simp only [List.map_cons, List.sum_cons]; congr 1; omega
  have := H chunks b1 0 (by omega) hc h2
  simpa using this

/-- octets a definite-length header needs: short form 2, `0x81` form 3, `0x82` form 4 -/
def hdrNeed (v : Nat) : Nat := if v < 128 then 2 else if v < 256 then 3 else 4

/-- **C17.tag_len_exact**: `push_tag_len` writes the whole header or nothing — it fails with
`OutOfBuffer` exactly when fewer octets are free than the header form needs (2 / 3 / 4, the long-form
prefix octet included) and otherwise puts exactly the header in front of the content. -/
theorem tag_len_exact (b : Buf) (hb : b.Inv) (tag : UInt8) (v : Nat) :
    (tagLenBytes tag v).length = hdrNeed v ∧
    (b.pos < hdrNeed v → b.pushTagLen tag v = .err .OutOfBuffer) ∧
    (hdrNeed v ≤ b.pos → b.pushTagLen tag v = .ok (b.prepend (tagLenBytes tag v))) := by
  have hl : (tagLenBytes tag v).length = hdrNeed v := by
    unfold tagLenBytes hdrNeed
    split
    · rfl
    · split <;> rfl
  have hp : b.pos = Buf.cap - b.cells.length := rfl
  have hi : b.cells.length ≤ Buf.cap := hb
  refine ⟨hl, fun h => ?_, fun h => ?_⟩
  · rw [pushTagLen_spec b hb, specOut, hl]
    have : ¬ (b.len + hdrNeed v ≤ Buf.cap) := by simp only [Buf.len]; omega
    rw [if_neg this]
  · rw [pushTagLen_spec b hb, specOut, hl]
    have : b.len + hdrNeed v ≤ Buf.cap := by simp only [Buf.len]; omega
    rw [if_pos this]

/-! Non-vacuity: the header boundaries, and a bookmark measured over two pushes. -/
example : hdrNeed 127 = 2 ∧ hdrNeed 128 = 3 ∧ hdrNeed 255 = 3 ∧ hdrNeed 256 = 4 := by decide
example : ∃ b1 b2, Buf.empty.setBookmark 3 = .ok b1 ∧
    [[1, 2], [3]].foldlM (fun (acc : Buf) c => acc.push c) b1 = .ok b2 ∧
    b2.getBookmark = .ok (3 + 3) := ⟨_, _, rfl, rfl, rfl⟩

/-- **C17.cap_side**: the capacity is below 65536, which the two-octet long form needs -/
theorem cap_side : Buf.cap < 65536 := by decide

/-- **C17.oob_iff** (v1 / v2c): the encoder fails with `OutOfBuffer` iff the encoding exceeds the
capacity; otherwise the buffer holds exactly the encoding. Never a panic. -/
theorem oob_iff (version : Nat) (m : CommunityMsg) (enc : Bytes) (he : encCommunityMsg version m = some enc) :
    (pushCommunityMsg version Buf.empty m = .err .OutOfBuffer ↔ Buf.cap < enc.length) ∧
    (enc.length ≤ Buf.cap → (pushCommunityMsg version Buf.empty m >>= Buf.data) = .ok enc) := by
  rw [pushCommunityMsg_spec version Buf.empty rfl m enc he]
  unfold specOut
  have hl : Buf.empty.len = 0 := rfl
  constructor
  · constructor
    · intro h
      split at h
      · cases h
      · omega
    · intro h
      rw [if_neg (by omega)]
  · intro h
    rw [if_pos (by omega)]
    exact data_prepend_empty enc

/-- **C17.oversized_send** (v1 / v2c): an API call whose request does not fit the buffer fails with
`OutOfBuffer`, which Python sees as `SnmpEncodeError`; `Session.send` returns an error instead of a
datagram, i.e. nothing is handed to the socket; the session is left usable (only the request id moved) -/
theorem oversized_send (D : Digests) (C : Ciphers) (cs : CommunitySession) (call : Call) (rawReq rawMsg : Int)
    (pdu : Pdu) (enc : Bytes) (hp : call.toPdu (maskId rawReq) = .ok pdu)
    (he : encCommunityMsg cs.version ⟨cs.community, pdu⟩ = some enc) (hbig : Buf.cap < enc.length) :
    ((Session.community cs).send D C call rawReq rawMsg Buf.empty).2 = .err .OutOfBuffer ∧
    pyClass .OutOfBuffer = .SnmpEncodeError ∧
    ((Session.community cs).send D C call rawReq rawMsg Buf.empty).1 =
      .community { cs with requestId := maskId rawReq } := by
  have h := (oob_iff cs.version ⟨cs.community, pdu⟩ enc he).1.2 hbig
  refine ⟨?_, rfl, rfl⟩
  simp only [Session.send, hp, bind_ok, pushPduCommunity]
  rw [h]
  rfl

/-- and a request that fits is sent as exactly its encoding -/
theorem fitting_send (D : Digests) (C : Ciphers) (cs : CommunitySession) (call : Call) (rawReq rawMsg : Int)
    (pdu : Pdu) (enc : Bytes) (hp : call.toPdu (maskId rawReq) = .ok pdu)
    (he : encCommunityMsg cs.version ⟨cs.community, pdu⟩ = some enc) (hfit : enc.length ≤ Buf.cap) :
    ((Session.community cs).send D C call rawReq rawMsg Buf.empty).2 = .ok enc := by
  have h := (oob_iff cs.version ⟨cs.community, pdu⟩ enc he).2 hfit
  simp only [Session.send, hp, bind_ok, pushPduCommunity]
  exact h

end GufoSnmp.C17
