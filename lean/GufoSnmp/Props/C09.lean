import GufoSnmp.Lemmas.AuthLemmas
/-!
# C09 — every outgoing authenticated message carries a correct HMAC-96

Digest functions are parameters (`Digests`, contract: output lengths 16 / 20). `Spec.hmac`
is RFC 2104 written independently. All messages (any size, any field lengths, with or without
privacy), any pooled buffer (any stale bookmark).
-/
namespace GufoSnmp.C09
open GufoSnmp Gen Outcome

/-- **C09.sign_is_hmac**: `DigestAuth::sign` writes HMAC-H-96 of the whole data into the 12
octets at `offset` and touches nothing else -/
theorem sign_is_hmac (D : Digests) (hD : D.WF) (alg : AuthAlg) (key data : Bytes) (off : Nat)
    (hk : key.length = alg.keySize) (ho : off + 12 ≤ data.length) :
    sign D (.digest alg key) data off = .ok (splice data off (Spec.hmac96 (D.hash alg) key data)) :=
  sign_is_hmac96 D hD alg key data off hk ho

theorem data_map_some (enc : Bytes) (bm : Nat) : (Buf.mk (enc.map some) bm).data = .ok enc := by
  unfold Buf.data
  have hall : (enc.map some).all Option.isSome = true := by simp [List.all_eq_true]
  simp only [hall, if_true, filterMap_id_map_some]

theorem splice_mid (P Z S new : Bytes) (h : Z.length = new.length) :
    splice (P ++ (Z ++ S)) P.length new = P ++ (new ++ S) := by
  unfold splice
  have h1 : (P ++ (Z ++ S)).take P.length = P := List.take_left
  have h2 : (P ++ (Z ++ S)).drop (P.length + new.length) = S := by
    rw [← h, ← List.append_assoc]
    have : P.length + Z.length = (P ++ Z).length := by simp
    rw [this]
    exact List.drop_left
  rw [h1, h2, List.append_assoc]

/-- **C09.auth_wire**: with an authentication key, the emitted datagram is the serialised message
with its 12 zero placeholder octets replaced by HMAC-96, under the session key, of the whole
message with that field zeroed; the auth flag is set. Any pooled buffer. -/
theorem auth_wire (D : Digests) (hD : D.WF) (alg : AuthAlg) (key : Bytes) (hk : key.length = alg.keySize)
    (m : V3Msg) (hph : m.usm.authParams = List.replicate 12 0) (buf : Buf) (hb : buf.cells = [])
    (d enc : Bytes) (hd : encMsgData m.data = some d) (he : encV3 m = some enc) (hfit : enc.length ≤ Buf.cap) :
    finishV3 D (.digest alg key) m buf =
      .ok (v3Prefix m d ++ (Spec.hmac96 (D.hash alg) key enc ++ v3Suffix m d)) ∧
    enc = v3Prefix m d ++ (List.replicate 12 0 ++ v3Suffix m d) := by
  have hlen : m.usm.authParams.length = 12 := by rw [hph]; simp
  obtain ⟨b', h1, h2, h3, h4⟩ := v3_bookmark_offset buf hb m d enc hd he hfit (by omega) (by omega)
  rw [hph] at h4
  refine ⟨?_, h4⟩
  unfold finishV3
  rw [h1]
  generalize v3Prefix m d = P at *
  generalize v3Suffix m d = S at *
  simp only [bind_ok, h2, AuthKey.hasAuth, if_true, h3]
  have ho : P.length + 12 ≤ enc.length := by
    rw [h4]; simp only [List.length_append, List.length_replicate]; omega
  rw [sign_is_hmac96 D hD alg key enc _ hk ho]
  have hm : (Spec.hmac96 (D.hash alg) key enc).length = 12 := by
    unfold Spec.hmac96 Spec.hmac
    rw [List.length_take, hash_len D hD]
    cases alg <;> decide
  generalize Spec.hmac96 (D.hash alg) key enc = mac at *
  subst h4
  rw [splice_mid P (List.replicate 12 0) S mac (by simp [hm])]

/-- RFC 3414 §6.3.2 / §7.3.2 as a receiver performs it: zero the 12 octets at `off`, compute HMAC-96 over
the whole message, compare with the octets that were there -/
def rfcVerify (h : Bytes → Bytes) (key : Bytes) (off : Nat) (dg : Bytes) : Bool :=
  Spec.hmac96 h key (dg.take off ++ (List.replicate 12 0 ++ dg.drop (off + 12))) == (dg.drop off).take 12

/-- **C09.receiver_accepts**: the receiver's view of `auth_wire` — every datagram an authenticated session
emits passes the RFC 3414 incoming check under the same key, at the offset of `msgAuthenticationParameters`. -/
theorem receiver_accepts (D : Digests) (hD : D.WF) (alg : AuthAlg) (key : Bytes) (hk : key.length = alg.keySize)
    (m : V3Msg) (hph : m.usm.authParams = List.replicate 12 0) (buf : Buf) (hb : buf.cells = [])
    (d enc : Bytes) (hd : encMsgData m.data = some d) (he : encV3 m = some enc) (hfit : enc.length ≤ Buf.cap) :
    ∃ dg, finishV3 D (.digest alg key) m buf = .ok dg ∧
      rfcVerify (D.hash alg) key (v3Prefix m d).length dg = true := by
  obtain ⟨h1, h2⟩ := auth_wire D hD alg key hk m hph buf hb d enc hd he hfit
  refine ⟨_, h1, ?_⟩
  have hm : (Spec.hmac96 (D.hash alg) key enc).length = 12 := by
    unfold Spec.hmac96 Spec.hmac
    rw [List.length_take, hash_len D hD]
    cases alg <;> decide
  unfold rfcVerify
  generalize v3Prefix m d = P at *
  generalize v3Suffix m d = S at *
  have e1 : (P ++ (Spec.hmac96 (D.hash alg) key enc ++ S)).take P.length = P := List.take_left
  have e2 : (P ++ (Spec.hmac96 (D.hash alg) key enc ++ S)).drop (P.length + 12) = S := by
    rw [← List.append_assoc]
    exact List.drop_left' (by rw [List.length_append, hm])
  have e3 : ((P ++ (Spec.hmac96 (D.hash alg) key enc ++ S)).drop P.length).take 12 =
      Spec.hmac96 (D.hash alg) key enc := by
    rw [List.drop_left]; exact List.take_left' hm
  rw [e1, e2, e3, ← h2]
  exact beq_self_eq_true _

/-- **C09.noauth_wire**: without a key nothing is signed: the datagram is the plain
serialisation, the field is the empty OCTET STRING and the session's auth flag is clear -/
theorem noauth_wire (D : Digests) (m : V3Msg) (buf : Buf) (hb : buf.cells = []) (d enc : Bytes)
    (hd : encMsgData m.data = some d) (he : encV3 m = some enc) (hfit : enc.length ≤ Buf.cap) :
    finishV3 D .noAuth m buf = .ok enc ∧ AuthKey.noAuth.placeholder = [] ∧ AuthKey.noAuth.hasAuth = false := by
  refine ⟨?_, rfl, rfl⟩
  unfold finishV3
  rw [pushV3_spec buf hb m d enc hd he]
  unfold specOutB
  have hl : buf.len = 0 := by simp [Buf.len, hb]
  rw [if_pos (by omega)]
  simp only [bind_ok, hb, List.append_nil, data_map_some, AuthKey.hasAuth, Bool.false_eq_true, if_false, pure_eq]

/-- the message the socket builds carries the session's auth flag and a 12-octet zero placeholder
exactly when the session has an authentication key -/
theorem msg_flags (s : V3Session) (fr : Bool) (pp : Bytes) (data : MsgData) :
    (v3MsgOf s fr pp data).flagAuth = s.authKey.hasAuth ∧
    (∀ alg key, s.authKey = .digest alg key → (v3MsgOf s fr pp data).usm.authParams = List.replicate 12 0) ∧
    (s.authKey = .noAuth → (v3MsgOf s fr pp data).usm.authParams = []) := by
  refine ⟨rfl, ?_, ?_⟩
  · intro alg key h
    simp only [v3MsgOf, h, AuthKey.placeholder]
    cases alg <;> rfl
  · intro h; simp only [v3MsgOf, h, AuthKey.placeholder]

theorem finish_oob (D : Digests) (k : AuthKey) (m : V3Msg) (buf : Buf) (hb : buf.cells = []) (d enc : Bytes)
    (hd : encMsgData m.data = some d) (he : encV3 m = some enc) (hfit : ¬ enc.length ≤ Buf.cap) :
    finishV3 D k m buf = .err .OutOfBuffer := by
  unfold finishV3
  rw [pushV3_spec buf hb m d enc hd he]
  unfold specOutB
  have hl : buf.len = 0 := by simp [Buf.len, hb]
  rw [hl, if_neg (by omega)]
  rfl

/-- independence from the pooled buffer's history -/
theorem history_free (D : Digests) (k : AuthKey) (m : V3Msg) (bm1 bm2 : Nat) (d enc : Bytes)
    (hd : encMsgData m.data = some d) (he : encV3 m = some enc)
    (hD : D.WF) (hk : ∀ alg key, k = .digest alg key → key.length = alg.keySize ∧ m.usm.authParams = List.replicate 12 0) :
    finishV3 D k m ⟨[], bm1⟩ = finishV3 D k m ⟨[], bm2⟩ := by
  by_cases hfit : enc.length ≤ Buf.cap
  · cases k with
    | noAuth =>
      rw [(noauth_wire D m ⟨[], bm1⟩ rfl d enc hd he hfit).1, (noauth_wire D m ⟨[], bm2⟩ rfl d enc hd he hfit).1]
    | digest alg key =>
      obtain ⟨h1, h2⟩ := hk alg key rfl
      rw [(auth_wire D hD alg key h1 m h2 ⟨[], bm1⟩ rfl d enc hd he hfit).1,
        (auth_wire D hD alg key h1 m h2 ⟨[], bm2⟩ rfl d enc hd he hfit).1]
  · rw [finish_oob D k m ⟨[], bm1⟩ rfl d enc hd he hfit, finish_oob D k m ⟨[], bm2⟩ rfl d enc hd he hfit]

/-! Non-vacuity: a digest pair meeting the contract -/
example : Digests.WF ⟨fun _ => List.replicate 16 0, fun _ => List.replicate 20 0⟩ :=
  ⟨fun _ => by simp, fun _ => by simp⟩

/-! ## The key a session signs with always has the digest's key length

(the hypothesis `key.length = alg.keySize` of `auth_wire` and of `C03.wire_v3`, discharged for every
session the constructor or `set_keys` can produce) -/

/-- an authentication key state whose key has the length its digest prescribes -/
def Sized (k : AuthKey) : Prop := ∀ alg key, k = .digest alg key → key.length = alg.keySize

theorem asLocalized_sized (alg : AuthAlg) (key : Bytes) (k : AuthKey) (h : asLocalized alg key = .ok k) :
    Sized k := by
  unfold asLocalized at h
  obtain ⟨c, hc, h⟩ := Outcome.bind_eq_ok h
  simp only [Outcome.pure_eq, Outcome.ok.injEq] at h
  unfold cloneFromSlice at hc
  split at hc
  · rename_i hl
    simp only [Outcome.ok.injEq] at hc
    subst hc; subst h
    intro a k' he
    cases he
    exact hl
  · cases hc

theorem asMaster_sized (D : Digests) (alg : AuthAlg) (key loc : Bytes) (k : AuthKey)
    (h : asMaster D alg key loc = .ok k) : Sized k := by
  unfold asMaster at h
  obtain ⟨out, _, h⟩ := Outcome.bind_eq_ok h
  exact asLocalized_sized alg out k h

theorem asPassword_sized (D : Digests) (alg : AuthAlg) (pw loc : Bytes) (k : AuthKey)
    (h : asPassword D alg pw loc = .ok k) : Sized k := by
  unfold asPassword at h
  obtain ⟨m, _, h⟩ := Outcome.bind_eq_ok h
  exact asMaster_sized D alg m loc k h

/-- **C09.key_sized**: whatever `as_key_type` accepts (password, master or localized key of either
digest, any engine id) leaves a key of exactly the digest's key length in place -/
theorem asKeyType_sized (D : Digests) (k0 : AuthKey) (code : Nat) (key eng : Bytes) (k : AuthKey)
    (h : asKeyType D k0 code key eng = .ok k) : Sized k := by
  unfold asKeyType at h
  cases k0 with
  | noAuth =>
    simp only [Outcome.ok.injEq] at h
    subst h
    intro a k' he; cases he
  | digest alg old =>
    simp only at h
    split at h
    · split at h
      · cases h
      · exact asPassword_sized D alg key eng k h
    · split at h
      · exact asMaster_sized D alg key eng k h
      · split at h
        · split at h
          · cases h
          · exact asLocalized_sized alg key k h
        · cases h

theorem v3Keys_sized (D : Digests) (eng : Bytes) (aalg : Nat) (akey : Bytes) (palg : Nat) (pkey : Bytes)
    (seed : Nat) (a : AuthKey) (pk : PrivKey) (h : v3Keys D eng aalg akey palg pkey seed = .ok (a, pk)) :
    Sized a := by
  unfold v3Keys at h
  obtain ⟨a0, _, h⟩ := Outcome.bind_eq_ok h
  obtain ⟨a1, ha1, h⟩ := Outcome.bind_eq_ok h
  obtain ⟨p0, _, h⟩ := Outcome.bind_eq_ok h
  have hs := asKeyType_sized D a0 aalg akey eng a1 ha1
  split at h
  · obtain ⟨q0, _, h⟩ := Outcome.bind_eq_ok h
    obtain ⟨q1, _, h⟩ := Outcome.bind_eq_ok h
    obtain ⟨p1, _, h⟩ := Outcome.bind_eq_ok h
    simp only [Outcome.pure_eq, Outcome.ok.injEq, Prod.mk.injEq] at h
    rw [← h.1]; exact hs
  · simp only [Outcome.pure_eq, Outcome.ok.injEq, Prod.mk.injEq] at h
    rw [← h.1]; exact hs

/-- **C09.session_key_sized**: a session the constructor returns signs with a key of the right length -/
theorem new_sized (D : Digests) (eng user : Bytes) (aalg : Nat) (akey : Bytes) (palg : Nat) (pkey : Bytes)
    (seed : Nat) (s : V3Session) (h : V3Session.new D eng user aalg akey palg pkey seed = .ok s) :
    Sized s.authKey := by
  unfold V3Session.new at h
  obtain ⟨r, hr, h⟩ := Outcome.bind_eq_ok h
  obtain ⟨a, pk⟩ := r
  simp only [Outcome.pure_eq, Outcome.ok.injEq] at h
  rw [← h]
  exact v3Keys_sized D eng aalg akey palg pkey seed a pk hr

/-- and `set_keys` keeps it so, whether it succeeds (new key) or fails (old key kept) -/
theorem setKeys_sized (D : Digests) (s : V3Session) (user : Bytes) (aalg : Nat) (akey : Bytes) (palg : Nat)
    (pkey : Bytes) (seed : Nat) (hs : Sized s.authKey) :
    Sized (s.setKeys D user aalg akey palg pkey seed).1.authKey := by
  unfold V3Session.setKeys
  simp only
  cases hk : v3Keys D s.engineId aalg akey palg pkey seed with
  | ok r =>
    obtain ⟨a, pk⟩ := r
    exact v3Keys_sized D s.engineId aalg akey palg pkey seed a pk hk
  | err e => exact hs
  | panic w => exact hs

example : Sized (.digest .md5 (List.replicate 16 7)) := by
  intro a k h; cases h; rfl

end GufoSnmp.C09
