import GufoSnmp.Lemmas.ValueSpec
import GufoSnmp.Props.C07
import GufoSnmp.Spec.Agent

/-! # C02 — response values reach the caller exactly as the agent encoded them

`SV` is what the agent means, `Content` / `LenForm` (Lemmas/ValueSpec.lean) say which octets
encode it under X.690 (any definite length form, INTEGERs with redundant sign octets up to 8,
unsigned values with leading zero octets), `py` is the Python object the caller must see. -/

namespace GufoSnmp.C02
open GufoSnmp GufoSnmp.Gen GufoSnmp.Spec Outcome

/-- what the agent means by a value -/
inductive SV where
  | int (v : Int)
  | counter32 (n : Nat) | gauge32 (n : Nat) | timeticks (n : Nat) | uinteger32 (n : Nat) | counter64 (n : Nat)
  | octets (b : Bytes) | opaq (b : Bytes) | objdesc (b : Bytes)
  | ipaddr (a b c d : UInt8)
  | oid (a0 a1 : Nat) (rest : List Nat)
  | bool (b : Bool)

/-- identifier octet (X.690 universal class / RFC 2578 application class) -/
def SV.tag : SV → UInt8
  | .int _ => 0x02 | .counter32 _ => 0x41 | .gauge32 _ => 0x42 | .timeticks _ => 0x43 | .uinteger32 _ => 0x47
  | .counter64 _ => 0x46 | .octets _ => 0x04 | .opaq _ => 0x44 | .objdesc _ => 0x07 | .ipaddr .. => 0x40
  | .oid .. => 0x06 | .bool _ => 0x01

/-- `Content sv c`: the octets `c` are an X.690 content encoding of `sv` -/
def Content : SV → Bytes → Prop
  | .int v, c => 1 ≤ c.length ∧ c.length ≤ 8 ∧ twos c = v
  | .counter32 n, c => beNat c = n ∧ n < 2 ^ 32
  | .gauge32 n, c => beNat c = n ∧ n < 2 ^ 32
  | .timeticks n, c => beNat c = n ∧ n < 2 ^ 32
  | .uinteger32 n, c => beNat c = n ∧ n < 2 ^ 32
  | .counter64 n, c => beNat c = n ∧ n < 2 ^ 64
  | .octets b, c => c = b
  | .opaq b, c => c = b
  | .objdesc b, c => c = b
  | .ipaddr a b c d, x => x = [a, b, c, d]
  | .oid a0 a1 rest, c => a0 ≤ 2 ∧ a1 ≤ 39 ∧ (∀ a ∈ rest, a < 2 ^ 32) ∧ derOid (a0 :: a1 :: rest) = some c
  | .bool b, c => ∃ x : UInt8, c = [x] ∧ b = (x.toNat != 0)

/-- the Python object the caller must receive -/
def py : SV → PyScalar
  | .int v => .int v
  | .counter32 n => .int n | .gauge32 n => .int n | .timeticks n => .int n | .uinteger32 n => .int n
  | .counter64 n => .int n
  | .octets b => .bytes b | .opaq b => .bytes b | .objdesc b => .bytes b
  | .ipaddr a b c d => .str (digits a.toNat ++ [46] ++ digits b.toNat ++ [46] ++ digits c.toNat ++ [46] ++ digits d.toNat)
  | .oid a0 a1 rest => .str (dotted (a0 :: a1 :: rest))
  | .bool b => .bool b

theorem tag_low (sv : SV) : sv.tag.toNat % 32 ≠ 31 := by cases sv <;> (simp only [SV.tag]; decide)

/-- **C02.value_sound**: for every value, every content encoding of it and every definite length
form, at any position (`rest` arbitrary): the decoder returns a value that converts to exactly the
Python object the encoding denotes, and consumes exactly the TLV -/
theorem value_sound (sv : SV) (c ls rest : Bytes) (hc : Content sv c) (hf : LenForm c.length ls) :
    ∃ v, valueFromBer (sv.tag :: ls ++ (c ++ rest)) = .ok (v, rest) ∧ valueToPy v = .ok (py sv) := by
  rw [valueFromBer_general sv.tag (tag_low sv) c ls hf rest]
  cases sv with
  | int v =>
    obtain ⟨h1, h8, hv⟩ := hc
    have hh : hdrOf (SV.int v).tag c.length = { cls := 0, constructed := false, tag := 2, length := c.length } := by simp [hdrOf, SV.tag]
    have hd := decodeInt_twos (c ++ rest) { cls := 0, constructed := false, tag := 2, length := c.length }
      (by exact h1) (by exact h8) (by simp)
    simp only [take_left'] at hd
    refine ⟨.int v, ?_, rfl⟩
    rw [hh]
    simp [Outcome.bind, decodeValue, hd, hv, tagInt, tagBool]
  | counter32 n =>
    obtain ⟨hb, hn⟩ := hc
    have hh : hdrOf (SV.counter32 n).tag c.length = { cls := 1, constructed := false, tag := 1, length := c.length } := by simp [hdrOf, SV.tag]
    have hd := decodeUnsigned_be 32 c rest { cls := 1, constructed := false, tag := 1, length := c.length } rfl
      (by rw [hb]; exact hn)
    refine ⟨.counter32 n, ?_, rfl⟩
    rw [hh]
    simp [Outcome.bind, decodeValue, hd, hb, tagAppIpaddress, tagAppCounter32]
  | gauge32 n =>
    obtain ⟨hb, hn⟩ := hc
    have hh : hdrOf (SV.gauge32 n).tag c.length = { cls := 1, constructed := false, tag := 2, length := c.length } := by simp [hdrOf, SV.tag]
    have hd := decodeUnsigned_be 32 c rest { cls := 1, constructed := false, tag := 2, length := c.length } rfl
      (by rw [hb]; exact hn)
    refine ⟨.gauge32 n, ?_, rfl⟩
    rw [hh]
    simp [Outcome.bind, decodeValue, hd, hb, tagAppIpaddress, tagAppCounter32, tagAppGauge32]
  | timeticks n =>
    obtain ⟨hb, hn⟩ := hc
    have hh : hdrOf (SV.timeticks n).tag c.length = { cls := 1, constructed := false, tag := 3, length := c.length } := by simp [hdrOf, SV.tag]
    have hd := decodeUnsigned_be 32 c rest { cls := 1, constructed := false, tag := 3, length := c.length } rfl
      (by rw [hb]; exact hn)
    refine ⟨.timeticks n, ?_, rfl⟩
    rw [hh]
    simp [Outcome.bind, decodeValue, hd, hb, tagAppIpaddress, tagAppCounter32, tagAppGauge32, tagAppTimeticks]
  | uinteger32 n =>
    obtain ⟨hb, hn⟩ := hc
    have hh : hdrOf (SV.uinteger32 n).tag c.length = { cls := 1, constructed := false, tag := 7, length := c.length } := by simp [hdrOf, SV.tag]
    have hd := decodeUnsigned_be 32 c rest { cls := 1, constructed := false, tag := 7, length := c.length } rfl
      (by rw [hb]; exact hn)
    refine ⟨.uinteger32 n, ?_, rfl⟩
    rw [hh]
    simp [Outcome.bind, decodeValue, hd, hb, tagAppIpaddress, tagAppCounter32, tagAppGauge32, tagAppTimeticks, tagAppOpaque,
      tagAppCounter64, tagAppUinteger32]
  | counter64 n =>
    obtain ⟨hb, hn⟩ := hc
    have hh : hdrOf (SV.counter64 n).tag c.length = { cls := 1, constructed := false, tag := 6, length := c.length } := by simp [hdrOf, SV.tag]
    have hd := decodeUnsigned_be 64 c rest { cls := 1, constructed := false, tag := 6, length := c.length } rfl
      (by rw [hb]; exact hn)
    refine ⟨.counter64 n, ?_, rfl⟩
    rw [hh]
    simp [Outcome.bind, decodeValue, hd, hb, tagAppIpaddress, tagAppCounter32, tagAppGauge32, tagAppTimeticks, tagAppOpaque,
      tagAppCounter64]
  | octets b =>
    simp only [Content] at hc; subst hc
    have hh : hdrOf (SV.octets c).tag c.length = { cls := 0, constructed := false, tag := 4, length := c.length } := by simp [hdrOf, SV.tag]
    refine ⟨.octets c, ?_, rfl⟩
    rw [hh]
    simp [Outcome.bind, decodeValue, decodeSlice, sliceTo_ok, tagBool, tagInt, tagOctetString]
  | opaq b =>
    simp only [Content] at hc; subst hc
    have hh : hdrOf (SV.opaq c).tag c.length = { cls := 1, constructed := false, tag := 4, length := c.length } := by simp [hdrOf, SV.tag]
    refine ⟨.opaque c, ?_, rfl⟩
    rw [hh]
    simp [Outcome.bind, decodeValue, decodeSlice, sliceTo_ok, tagAppIpaddress, tagAppCounter32, tagAppGauge32, tagAppTimeticks,
      tagAppOpaque]
  | objdesc b =>
    simp only [Content] at hc; subst hc
    have hh : hdrOf (SV.objdesc c).tag c.length = { cls := 0, constructed := false, tag := 7, length := c.length } := by simp [hdrOf, SV.tag]
    refine ⟨.objdesc c, ?_, rfl⟩
    rw [hh]
    simp [Outcome.bind, decodeValue, decodeSlice, sliceTo_ok, tagBool, tagInt, tagOctetString, tagNull, tagObjectId,
      tagObjectDescriptor]
  | ipaddr a b c' d =>
    simp only [Content] at hc; subst hc
    have hh : hdrOf (SV.ipaddr a b c' d).tag [a, b, c', d].length = { cls := 1, constructed := false, tag := 0, length := 4 } := by simp [hdrOf, SV.tag]
    refine ⟨.ipaddr a.toNat b.toNat c'.toNat d.toNat, ?_, ?_⟩
    · rw [hh]
      simp [Outcome.bind, decodeValue, decodeIpAddress, idx, tagAppIpaddress]
    · simp [valueToPy, ipText, py, decimal_eq_digits]
  | oid a0 a1 more =>
    obtain ⟨h0, h1, hr, hd⟩ := hc
    have hh : hdrOf (SV.oid a0 a1 more).tag c.length = { cls := 0, constructed := false, tag := 6, length := c.length } := by simp [hdrOf, SV.tag]
    refine ⟨.oid c, ?_, ?_⟩
    · rw [hh]
      simp [Outcome.bind, decodeValue, decodeSlice, sliceTo_ok, tagBool, tagInt, tagOctetString, tagNull, tagObjectId]
    · simp only [valueToPy, py]
      rw [oidToStr_der a0 a1 more h0 h1 hr c hd]
      rfl
  | bool b =>
    obtain ⟨x, rfl, hb⟩ := hc
    have hh : hdrOf (SV.bool b).tag [x].length = { cls := 0, constructed := false, tag := 1, length := 1 } := by simp [hdrOf, SV.tag]
    refine ⟨.bool b, ?_, rfl⟩
    rw [hh]
    simp [Outcome.bind, decodeValue, decodeBool, idx, tagBool, hb]
    by_cases hx : x.toNat = 0 <;> simp [hx]

/-- NULL and the three exception values decode to themselves for every length form of 0 -/
theorem nodata_values (ls rest : Bytes) (hf : LenForm 0 ls) :
    valueFromBer (0x05 :: ls ++ rest) = .ok (.null, rest) ∧
    valueFromBer (0x80 :: ls ++ rest) = .ok (.noSuchObject, rest) ∧
    valueFromBer (0x81 :: ls ++ rest) = .ok (.noSuchInstance, rest) ∧
    valueFromBer (0x82 :: ls ++ rest) = .ok (.endOfMibView, rest) := by
  have h := fun (t : UInt8) (ht : t.toNat % 32 ≠ 31) => valueFromBer_general t ht [] ls hf rest
  simp only [List.nil_append, List.length_nil] at h
  refine ⟨?_, ?_, ?_, ?_⟩
  · rw [h 0x05 (by decide)]
    simp [Outcome.bind, decodeValue, hdrOf, decodeNull, tagBool, tagInt, tagOctetString, tagNull]
  · rw [h 0x80 (by decide)]
    simp [Outcome.bind, decodeValue, hdrOf, tagCtxNoSuchObject]
  · rw [h 0x81 (by decide)]
    simp [Outcome.bind, decodeValue, hdrOf, tagCtxNoSuchObject, tagCtxNoSuchInstance]
  · rw [h 0x82 (by decide)]
    simp [Outcome.bind, decodeValue, hdrOf, tagCtxNoSuchObject, tagCtxNoSuchInstance, tagCtxEndOfMibView]

/-! ## Position independence: the varbind list -/

/-- one encoded varbind `SEQUENCE { OBJECT IDENTIFIER, value }` with its own length-field octets -/
structure Item where
  oid : Bytes
  lsOid : Bytes
  venc : Bytes
  lsSeq : Bytes
  value : Value

def Item.body (it : Item) : Bytes := 0x06 :: it.lsOid ++ (it.oid ++ it.venc)
def Item.enc (it : Item) : Bytes := 0x30 :: it.lsSeq ++ it.body

/-- well-formed: both length fields are definite forms of the right lengths, and the value octets
decode (at any position) to `value` -/
def Item.WF (it : Item) : Prop :=
  LenForm it.oid.length it.lsOid ∧ LenForm it.body.length it.lsSeq ∧
  ∀ s, valueFromBer (it.venc ++ s) = .ok (it.value, s)

theorem parseRespVar_item (it : Item) (hw : it.WF) (rest : Bytes) (prev : Option Bytes) :
    parseRespVar (it.enc ++ rest) prev = .ok (⟨it.oid, it.value⟩, rest) := by
  obtain ⟨ho, hs, hv⟩ := hw
  unfold parseRespVar Item.enc
  have e1 : 0x30 :: it.lsSeq ++ it.body ++ rest = 0x30 :: it.lsSeq ++ (it.body ++ rest) := by simp
  rw [e1, fromBer_lenForm sequenceDecoder 0x30 (by decide) (by decide) (by decide) (by decide) it.body it.lsSeq rest hs]
  have hdec : sequenceDecoder.decode (it.body ++ rest) (hdrOf 0x30 it.body.length) = .ok it.body := by
    show decodeSlice _ _ = _
    unfold decodeSlice
    rw [sliceTo_ok (by simp [hdrOf])]
    simp [hdrOf]
  rw [hdec]
  simp only [bind_ok, Outcome.bind]
  have hb : it.body = 0x06 :: (it.lsOid ++ (it.oid ++ it.venc)) := rfl
  rw [hb]
  simp only []
  have h6 : (0x06 : UInt8).toNat = tagObjectId := rfl
  rw [if_pos h6]
  have e2 : (0x06 : UInt8) :: (it.lsOid ++ (it.oid ++ it.venc)) = 0x06 :: it.lsOid ++ (it.oid ++ it.venc) := rfl
  rw [e2, fromBer_lenForm oidDecoder 0x06 (by decide) (by decide) (by decide) (by decide) it.oid it.lsOid it.venc ho]
  have hdec2 : oidDecoder.decode (it.oid ++ it.venc) (hdrOf 0x06 it.oid.length) = .ok it.oid := by
    show decodeSlice _ _ = _
    unfold decodeSlice
    rw [sliceTo_ok (by simp [hdrOf])]
    simp [hdrOf]
  rw [hdec2]
  simp only [bind_ok, Outcome.bind]
  have := hv []
  simp only [List.append_nil] at this
  rw [this]
  rfl

theorem Item.enc_length_pos (it : Item) : 0 < it.enc.length := by simp [Item.enc]

/-- **C02.varbinds_sound**: any number of varbinds, each value at whatever position, each with
its own length forms: the list is recovered in order, names and values intact -/
theorem varbinds_sound : ∀ (items : List Item), (∀ it ∈ items, it.WF) → ∀ (prev : Option Bytes),
    parseRespVars (items.map Item.enc).flatten prev = .ok (items.map (fun it => ⟨it.oid, it.value⟩))
  | [], _, _ => by unfold parseRespVars; simp
  | it :: more, hw, prev => by
    have he : ((it :: more).map Item.enc).flatten = it.enc ++ (more.map Item.enc).flatten := by simp
    rw [he]
    unfold parseRespVars
    have hne : (it.enc ++ (more.map Item.enc).flatten).isEmpty = false := by
      simp [Item.enc]
    rw [hne]
    simp only [Bool.false_eq_true, if_false]
    rw [parseRespVar_item it (hw it (by simp)) _ prev]
    simp only
    have hlt : ((more.map Item.enc).flatten).length < (it.enc ++ (more.map Item.enc).flatten).length := by
      have := it.enc_length_pos
      simp only [List.length_append]; omega
    rw [dif_pos hlt, varbinds_sound more (fun x hx => hw x (by simp [hx])) (some it.oid)]
    simp

/-- **C02.response_sound**: a GetResponse body with any request id / error fields and such a list -/
theorem response_sound (r es ei : Int) (hr : -(2 ^ 63) ≤ r ∧ r < 2 ^ 63) (hes : -(2 ^ 63) ≤ es ∧ es < 2 ^ 63)
    (hei : -(2 ^ 63) ≤ ei ∧ ei < 2 ^ 63) (items : List Item) (hw : ∀ it ∈ items, it.WF) (lsList : Bytes)
    (hl : LenForm (items.map Item.enc).flatten.length lsList) :
    getResponseTryFrom (encInt r ++ (encInt es ++ (encInt ei ++ (0x30 :: lsList ++ ((items.map Item.enc).flatten ++ [])))))
      = .ok (.getResponse r es ei (items.map (fun it => ⟨it.oid, it.value⟩))) := by
  unfold getResponseTryFrom
  rw [fromBer_encInt r hr.1 hr.2]
  simp only [bind_ok]
  rw [fromBer_encInt es hes.1 hes.2]
  simp only [bind_ok]
  rw [fromBer_encInt ei hei.1 hei.2]
  simp only [bind_ok]
  rw [fromBer_lenForm sequenceDecoder 0x30 (by decide) (by decide) (by decide) (by decide) _ lsList [] hl]
  have hdec : sequenceDecoder.decode ((items.map Item.enc).flatten ++ []) (hdrOf 0x30 (items.map Item.enc).flatten.length)
      = .ok (items.map Item.enc).flatten := by
    show decodeSlice _ _ = _
    unfold decodeSlice
    rw [sliceTo_ok (by simp [hdrOf])]
    simp only [hdrOf, take_left']
  rw [hdec]
  simp only [bind_ok, Outcome.bind, List.isEmpty_nil, Bool.not_true, Bool.false_eq_true, if_false]
  rw [varbinds_sound items hw none]
  rfl

/-- **C02.get_delivers**: what `get` hands to the caller for a one-varbind response carrying `sv`:
exactly `py sv` -/
theorem get_delivers (sv : SV) (c ls : Bytes) (hc : Content sv c) (hf : LenForm c.length ls)
    (r es ei : Int) (oid : Bytes) (v : Value)
    (hv : valueFromBer (sv.tag :: ls ++ (c ++ [])) = .ok (v, [])) :
    opGetToPython (.getResponse r es ei [⟨oid, v⟩]) = .value (.scalar (py sv)) := by
  obtain ⟨v', h1, h2⟩ := value_sound sv c ls [] hc hf
  rw [hv] at h1
  cases h1
  have hdata : v.isData = true := by
    cases v <;> simp_all [Value.isData, valueToPy]
  rw [C07.get_data r es ei ⟨oid, v⟩ hdata, h2]
  rfl

/-! ## REAL -/

/-- special values and zero (X.690 8.5.9, 8.5.2) -/
theorem real_special (rest : Bytes) (hdr0 hdr1 : Header) (h0 : hdr0.length = 0) (h1 : hdr1.length = 1) :
    decodeReal rest hdr0 = .ok .zero ∧
    decodeReal (0x40 :: rest) hdr1 = .ok .inf ∧ decodeReal (0x41 :: rest) hdr1 = .ok .negInf ∧
    decodeReal (0x42 :: rest) hdr1 = .ok .nan ∧ decodeReal (0x43 :: rest) hdr1 = .ok .negZero := by
  refine ⟨by simp [decodeReal, h0], ?_, ?_, ?_, ?_⟩ <;>
    simp [decodeReal, h1, sliceTo, idx]

/-- decimal forms NR2 / NR3 (X.690 8.5.8, ISO 6093): the text handed to the float parser is exactly
the transmitted one (`FloatVal.dec text` = the correctly rounded value of `text`, by Rust's
`f64::from_str`, compared against Python's `float(text)` in the check) -/
theorem real_decimal (nr : UInt8) (hn : nr.toNat = 2 ∨ nr.toNat = 3) (text rest : Bytes) (hdr : Header)
    (hl : hdr.length = text.length + 1) (hf : isRustFloat text = true) :
    decodeReal (nr :: text ++ rest) hdr = .ok (.dec text) := by
  unfold decodeReal
  have hne : ¬ hdr.length = 0 := by omega
  rw [if_neg hne]
  have hs : sliceTo (nr :: text ++ rest) hdr.length = .ok (nr :: text) := by
    rw [sliceTo_ok (by simp; omega)]
    have : (nr :: text ++ rest).take hdr.length = nr :: text := by
      rw [hl]
      have : nr :: text ++ rest = (nr :: text) ++ rest := rfl
      rw [this, show text.length + 1 = (nr :: text).length by simp, take_left']
    rw [this]
  rw [hs]
  simp only [bind_ok, idx, List.length_cons]
  rcases hn with h | h <;> simp [h, sliceFrom, hf]

/-- the exponent loop computes the two's complement value (no clamping below 2^40) -/
theorem parseExponentLoop_accZ : ∀ (bs : Bytes) (v : Int) (M : Nat), -(M : Int) ≤ v → v < M →
    M * 256 ^ bs.length ≤ 2 ^ 40 → parseExponentLoop bs v = accZ v bs
  | [], _, _, _, _, _ => rfl
  | x :: rest, v, M, h1, h2, hM => by
    simp only [parseExponentLoop, accZ, List.foldl_cons]
    have hx := u8_lt x
    have hpow : M * 256 * 256 ^ rest.length ≤ 2 ^ 40 := by
      rw [List.length_cons, Nat.pow_succ] at hM
      rw [Nat.mul_assoc, Nat.mul_comm 256]; exact hM
    have hpos : 1 ≤ 256 ^ rest.length := Nat.pow_pos (by omega)
    have hM256 : M * 256 ≤ 2 ^ 40 := by
      calc M * 256 = M * 256 * 1 := by omega
        _ ≤ M * 256 * 256 ^ rest.length := Nat.mul_le_mul_left _ hpos
        _ ≤ 2 ^ 40 := hpow
    rw [if_neg (by omega)]
    exact parseExponentLoop_accZ rest _ (M * 256) (by omega) (by omega) hpow

theorem parseExponent_twos (eo : Bytes) (h3 : eo.length ≤ 4) : parseExponent eo = twos eo := by
  cases eo with
  | nil => rfl
  | cons b rest =>
    unfold parseExponent twos
    simp only
    have hlen : 1 * 256 ^ (b :: rest).length ≤ 2 ^ 40 := by
      have : (b :: rest).length ≤ 4 := h3
      have := Nat.pow_le_pow_right (n := 256) (by omega) this
      have e : (256 : Nat) ^ 4 ≤ 2 ^ 40 := by decide
      omega
    by_cases hb : b.toNat < 128
    · rw [if_neg (by omega), if_pos hb]
      exact parseExponentLoop_accZ _ 0 1 (by omega) (by omega) hlen
    · rw [if_pos (by omega), if_neg hb]
      exact parseExponentLoop_accZ _ (-1) 1 (by omega) (by omega) hlen

theorem parseMantissaLoop_be : ∀ (mo : Bytes) (v : Nat), mo.length ≤ 8 → v < 256 ^ (8 - mo.length) →
    parseMantissaLoop mo v 0 false = (mo.foldl (fun a x => a * 256 + x.toNat) v, 0, false)
  | [], _, _, _ => rfl
  | x :: rest, v, hl, hv => by
    simp only [List.length_cons] at hl hv
    have h56 : v < 2 ^ 56 := by
      have : 256 ^ (8 - (rest.length + 1)) ≤ 256 ^ 7 := Nat.pow_le_pow_right (by omega) (by omega)
      have e : (256 : Nat) ^ 7 = 2 ^ 56 := by decide
      omega
    simp only [parseMantissaLoop, List.foldl_cons]
    rw [if_pos (Nat.div_eq_of_lt h56)]
    apply parseMantissaLoop_be rest _ (by omega)
    have hx := u8_lt x
    have e : 8 - rest.length = (8 - (rest.length + 1)) + 1 := by omega
    rw [e, Nat.pow_succ]
    generalize 256 ^ (8 - (rest.length + 1)) = X at *
    omega

theorem parseMantissa_be (mo : Bytes) (h8 : mo.length ≤ 8) : parseMantissa mo = (beNat mo, 0) := by
  unfold parseMantissa
  rw [parseMantissaLoop_be mo 0 h8 (Nat.pow_pos (by omega))]
  rfl

/-- first contents octet of a binary REAL (X.690 8.5.7): sign, base code, scaling factor, exponent format -/
def realFirst (neg : Bool) (b F fmt : Nat) : Nat := 128 + (if neg then 64 else 0) + 16 * b + 4 * F + fmt

/-- **binary REAL** (X.690 8.5.7, after the D8b repair): sign S, base 2 / 8 / 16 (`b` = 0 / 1 / 2),
scaling factor F in 0..3, a two's complement exponent E of 1..3 octets and an unsigned mantissa N
of up to 8 octets decode to `± N * 2^(E * log2(base) + F)`, i.e. exactly `S * N * 2^F * base^E`
(the single rounding to binary64 is `SnmpReal::ldexp`, compared with exact rational arithmetic
on every run) -/
theorem real_binary_sound (neg : Bool) (b F : Nat) (hb : b ≤ 2) (hF : F ≤ 3) (eo mo rest : Bytes)
    (he1 : 1 ≤ eo.length) (he3 : eo.length ≤ 3) (hm : mo.length ≤ 8) (hdr : Header)
    (hl : hdr.length = 1 + eo.length + mo.length) :
    decodeReal (UInt8.ofNat (realFirst neg b F (eo.length - 1)) :: (eo ++ mo) ++ rest) hdr =
      .ok (.bin neg (beNat mo) (twos eo * (if b = 0 then 1 else if b = 1 then 3 else 4) + (F : Int) + 0)) := by
  unfold decodeReal
  rw [if_neg (by omega)]
  have hfl : realFirst neg b F (eo.length - 1) < 256 := by
    unfold realFirst; cases neg <;> simp <;> omega
  have hfn : (UInt8.ofNat (realFirst neg b F (eo.length - 1))).toNat = realFirst neg b F (eo.length - 1) :=
    ofNat_toNat hfl
  have hs : sliceTo (UInt8.ofNat (realFirst neg b F (eo.length - 1)) :: (eo ++ mo) ++ rest) hdr.length
      = .ok (UInt8.ofNat (realFirst neg b F (eo.length - 1)) :: (eo ++ mo)) := by
    rw [sliceTo_ok (by simp; omega)]
    have : hdr.length = (UInt8.ofNat (realFirst neg b F (eo.length - 1)) :: (eo ++ mo)).length := by
      simp; omega
    rw [this, take_left']
  rw [hs]
  simp only [bind_ok, idx]
  have hge : realFirst neg b F (eo.length - 1) ≥ 128 := by unfold realFirst; omega
  have hidx : (UInt8.ofNat (realFirst neg b F (eo.length - 1)) :: (eo ++ mo))[0]? =
      some (UInt8.ofNat (realFirst neg b F (eo.length - 1))) := rfl
  rw [hidx]
  simp only [bind_ok, hfn]
  rw [if_pos hge]
  unfold decodeRealBinary realExpLayout
  have hfmt : realFirst neg b F (eo.length - 1) % 4 = eo.length - 1 := by
    unfold realFirst; cases neg <;> simp <;> omega
  rw [hfmt, if_neg (by omega)]
  simp only [bind_ok]
  have e1 : eo.length - 1 + 1 = eo.length := by omega
  rw [e1, if_neg (by simp only [List.length_cons, List.length_append]; omega)]
  have hsl : slice (UInt8.ofNat (realFirst neg b F (eo.length - 1)) :: (eo ++ mo)) 1 (1 + eo.length) = .ok eo := by
    unfold slice
    rw [if_pos (by simp only [List.length_cons, List.length_append]; omega)]
    rw [Nat.add_comm 1 eo.length, List.take_succ_cons]
    simp
  rw [hsl]
  simp only [bind_ok]
  have hsf : sliceFrom (UInt8.ofNat (realFirst neg b F (eo.length - 1)) :: (eo ++ mo)) (1 + eo.length) = .ok mo := by
    rw [sliceFrom_ok (by simp only [List.length_cons, List.length_append]; omega)]
    have : 1 + eo.length = eo.length + 1 := by omega
    simp [this]
  rw [hsf]
  simp only [bind_ok, parseMantissa_be mo hm, parseExponent_twos eo (by omega)]
  have hbase : realFirst neg b F (eo.length - 1) / 16 % 4 = b := by
    unfold realFirst; cases neg <;> simp <;> omega
  have hscale : realFirst neg b F (eo.length - 1) / 4 % 4 = F := by
    unfold realFirst; cases neg <;> simp <;> omega
  have hsign : (realFirst neg b F (eo.length - 1) / 64 % 2 = 1) = (neg = true) := by
    unfold realFirst; cases neg <;> simp <;> omega
  rw [hbase, hscale]
  have hb012 : b = 0 ∨ b = 1 ∨ b = 2 := by omega
  rcases hb012 with rfl | rfl | rfl <;> simp only [hsign] <;> cases neg <;> simp

/-! ## The hypotheses are satisfiable -/

example : Content (.int (-1)) [0xff, 0xff, 0xff, 0xff, 0xff, 0xff, 0xff, 0xff] := by
  simp only [Content]; decide
example : Content (.int (-(2 ^ 63))) [0x80, 0, 0, 0, 0, 0, 0, 0] := by
  simp only [Content]; decide
example : Content (.counter32 (2 ^ 32 - 1)) [0x00, 0xff, 0xff, 0xff, 0xff] := by
  simp only [Content]; decide
example : Content (.counter64 (2 ^ 64 - 1)) [0x00, 0xff, 0xff, 0xff, 0xff, 0xff, 0xff, 0xff, 0xff] := by
  simp only [Content]; decide
example : LenForm 5 [0x05] := Or.inl ⟨by decide, rfl⟩
example : LenForm 5 [0x82, 0x00, 0x05] := Or.inr ⟨[0x00, 0x05], by decide, by decide, by decide, rfl⟩
example : LenForm 300 [0x82, 0x01, 0x2c] := Or.inr ⟨[0x01, 0x2c], by decide, by decide, by decide, rfl⟩

/-! ## From the value decoder to what the caller holds: REAL in the varbind decoder, names, every operation -/

/-- **C02.real_in_varbind**: a REAL element (tag 9, any definite length form, any position) is decoded by the
varbind value decoder exactly as `decodeReal` reads its contents (`real_special`, `real_decimal`,
`real_binary_sound` say what that is), and reaches Python as that float -/
theorem real_in_varbind (c ls rest : Bytes) (hf : LenForm c.length ls) (f : FloatVal)
    (hd : decodeReal (c ++ rest) (hdrOf 0x09 c.length) = .ok f) :
    valueFromBer (0x09 :: ls ++ (c ++ rest)) = .ok (.real f, rest) ∧ valueToPy (.real f) = .ok (.float f) := by
  refine ⟨?_, rfl⟩
  rw [valueFromBer_general 0x09 (by decide) c ls hf rest]
  have hh : hdrOf 0x09 c.length = { cls := 0, constructed := false, tag := 9, length := c.length } := by
    simp [hdrOf]
  rw [hh] at hd ⊢
  simp only [decodeValue]
  have : (9 : Nat) = tagReal := rfl
  simp [tagBool, tagInt, tagOctetString, tagNull, tagObjectId, tagObjectDescriptor, tagReal, hd, Outcome.bind]

/-- a value that converts to a Python object is a data value -/
theorem isData_of_toPy (v : Value) (p : PyScalar) (h : valueToPy v = .ok p) : v.isData = true := by
  cases v <;> simp_all [valueToPy, Value.isData]

/-- **C02.name_key**: the name of a varbind whose OID element holds the DER content of `arcs` reaches the caller as
the dotted text of exactly those arcs (`C08.print_parse` for received names) -/
theorem name_key (a0 a1 : Nat) (rest : List Nat) (h0 : a0 ≤ 2) (h1 : a1 ≤ 39) (hr : ∀ a ∈ rest, a < 2 ^ 32)
    (oid : Bytes) (hb : derOid (a0 :: a1 :: rest) = some oid) :
    oidToStr oid = .ok (dotted (a0 :: a1 :: rest)) := oidToStr_der a0 a1 rest h0 h1 hr oid hb

/-- **C02.getnext_delivers**: one step of a GetNext walk: the row the agent sent (name = DER of `arcs`, value = any
content encoding of `sv` in any length form) is handed to the caller as (dotted name, Python value) -/
theorem getnext_delivers (sv : SV) (c ls : Bytes) (hc : Content sv c) (hf : LenForm c.length ls)
    (a0 a1 : Nat) (rest : List Nat) (h0 : a0 ≤ 2) (h1 : a1 ≤ 39) (hr : ∀ a ∈ rest, a < 2 ^ 32)
    (oid : Bytes) (hb : derOid (a0 :: a1 :: rest) = some oid)
    (r es ei : Int) (v : Value) (hv : valueFromBer (sv.tag :: ls ++ (c ++ [])) = .ok (v, []))
    (it it' : GetIter) (hacc : it.setNextOid oid = (it', true)) :
    opGetNextToPython (.getResponse r es ei [⟨oid, v⟩]) (some it) =
      (.value (.pair oid (dotted (a0 :: a1 :: rest)) (py sv)), some it') := by
  obtain ⟨v', h1', h2'⟩ := value_sound sv c ls [] hc hf
  rw [hv] at h1'
  cases h1'
  have hdat := isData_of_toPy v (py sv) h2'
  simp only [opGetNextToPython, hacc, Bool.not_true, Bool.false_eq_true, if_false, hdat]
  rw [name_key a0 a1 rest h0 h1 hr oid hb, h2']
  rfl

/-- when every data varbind of a reply converts (name and value), the conversion loop of `get_many` succeeds -/
theorem dictSpec_some : ∀ (vars : List VarBind) (acc : List (Bytes × PyScalar)),
    (∀ var ∈ vars, var.value.isData = true → (∃ k, oidToStr var.oid = .ok k) ∧ ∃ p, valueToPy var.value = .ok p) →
    ∃ d, C07.dictSpec vars acc = some d
  | [], acc, _ => ⟨acc, rfl⟩
  | var :: more, acc, h => by
    unfold C07.dictSpec
    by_cases hd : var.value.isData = true
    · obtain ⟨⟨k, hk⟩, ⟨p, hp⟩⟩ := h var (by simp) hd
      simp only [hd, Bool.not_true, Bool.false_eq_true, if_false, hk, hp]
      exact dictSpec_some more _ (fun x hx => h x (by simp [hx]))
    · have : var.value.isData = false := by cases hv : var.value.isData <;> simp_all
      simp only [this, Bool.not_false, if_true]
      exact dictSpec_some more acc (fun x hx => h x (by simp [hx]))

/-- **C02.get_many_delivers**: `get_many` on a reply all of whose data varbinds convert returns a dict, and the dict
maps each dotted name to the converted value of the last data varbind carrying that name (`C07.lastBinding`) —
every value the agent bound to a name that is not rebound later reaches the caller under that name -/
theorem get_many_delivers (r es ei : Int) (vars : List VarBind)
    (h : ∀ var ∈ vars, var.value.isData = true → (∃ k, oidToStr var.oid = .ok k) ∧ ∃ p, valueToPy var.value = .ok p) :
    ∃ d, opGetManyToPython (.getResponse r es ei vars) = .value (.dict d) ∧
      ∀ key, C07.dlook key d = C07.lastBinding key vars none := by
  obtain ⟨d, hd⟩ := dictSpec_some vars [] h
  refine ⟨d, ?_, fun key => ?_⟩
  · simp only [opGetManyToPython]
    rw [C07.get_many_dict vars [], hd]
  · have := C07.get_many_mapping vars [] d key hd
    simpa [C07.dlook] using this

end GufoSnmp.C02
