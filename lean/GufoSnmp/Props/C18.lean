import GufoSnmp.Model.Timing
import GufoSnmp.Props.C04

/-! # C18 — a request never outlives its timeout -/

namespace GufoSnmp.C18
open GufoSnmp.Timing

/-- **C18.sync_deadline**: whatever arrives and whenever (any number of stray datagrams at any
spacing, garbage, replies), the blocking call ends no later than its timeout plus the processing
time of one datagram -/
theorem sync_deadline (T d start : Nat) : ∀ (arrivals : List Arrival) (now : Nat),
    now ≤ start + T → (syncRecv T d start now arrivals).time ≤ start + T + d := by
  intro arrivals
  induction arrivals with
  | nil => intro now _; simp [syncRecv, End.time]
  | cons a rest ih =>
    intro now hnow
    unfold syncRecv
    simp only []
    split
    · simp [End.time]
    · rename_i hlt
      cases a.kind with
      | reply => simp only [End.time]; omega
      | garbage => simp only [End.time]; omega
      | stray =>
        simp only []
        split
        · simp only [End.time]; omega
        · rename_i h2
          exact ih _ (by omega)

/-- **C18.async_deadline**: the awaited call ends no later than the deadline plus the processing
of the datagram in hand -/
theorem async_deadline (T d start : Nat) : ∀ (arrivals : List Arrival) (now : Nat),
    (asyncRecv T d start now arrivals).time ≤ start + T + d := by
  intro arrivals
  induction arrivals with
  | nil => intro now; simp [asyncRecv, End.time]
  | cons a rest ih =>
    intro now
    unfold asyncRecv
    simp only []
    split
    · simp [End.time]
    · cases a.kind with
      | reply => simp only [End.time]; omega
      | garbage => simp only [End.time]; omega
      | stray => exact ih _

/-- **C18.silent**: a silent agent: TimeoutError exactly at the deadline -/
theorem silent (T d start : Nat) :
    syncRecv T d start start [] = .timeout (start + T) ∧ asyncRecv T d start start [] = .timeout (start + T) :=
  ⟨rfl, rfl⟩

/-- **C18.strays_timeout**: an agent that only ever sends non-matching datagrams cannot keep the
call alive: the result is a timeout (sync and async) -/
theorem strays_timeout (T d start : Nat) : ∀ (arrivals : List Arrival) (now : Nat),
    (∀ a ∈ arrivals, a.kind = .stray) →
    (∃ t, syncRecv T d start now arrivals = .timeout t) ∧ (∃ t, asyncRecv T d start now arrivals = .timeout t) := by
  intro arrivals
  induction arrivals with
  | nil => intro now _; exact ⟨⟨_, rfl⟩, ⟨_, rfl⟩⟩
  | cons a rest ih =>
    intro now h
    have ha : a.kind = .stray := h a (by simp)
    have hr : ∀ x ∈ rest, x.kind = .stray := fun x hx => h x (by simp [hx])
    constructor
    · unfold syncRecv
      simp only [ha]
      split
      · exact ⟨_, rfl⟩
      · split
        · exact ⟨_, rfl⟩
        · exact (ih _ hr).1
    · unfold asyncRecv
      simp only [ha]
      split
      · exact ⟨_, rfl⟩
      · exact (ih _ hr).2

/-- **C18.sync_match**: a matching reply that is in hand before the deadline (after the strays
before it have been skipped) is delivered -/
theorem sync_match (T d start : Nat) : ∀ (strays : List Arrival) (now : Nat) (r : Arrival) (rest : List Arrival),
    (∀ a ∈ strays, a.kind = .stray) → r.kind = .reply →
    max (clock d now strays) r.time < start + T → start ≤ now →
    syncRecv T d start now (strays ++ r :: rest) = .delivered (max (clock d now strays) r.time + d) := by
  intro strays
  induction strays with
  | nil =>
    intro now r rest _ hr hlt _
    simp only [clock] at hlt
    simp only [List.nil_append, syncRecv, clock, hr]
    rw [if_neg (by omega)]
  | cons a more ih =>
    intro now r rest hs hr hlt hst
    have ha : a.kind = .stray := hs a (by simp)
    have hm : ∀ x ∈ more, x.kind = .stray := fun x hx => hs x (by simp [hx])
    simp only [clock] at hlt ⊢
    have hmono : ∀ (xs : List Arrival) (n : Nat), n ≤ clock d n xs := by
      intro xs
      induction xs with
      | nil => intro n; simp [clock]
      | cons x xs ihx => intro n; simp only [clock]; exact Nat.le_trans (by omega) (ihx _)
    have h1 := hmono more (max now a.time + d)
    simp only [List.cons_append, syncRecv, ha]
    rw [if_neg (by omega), if_neg (by omega)]
    exact ih _ r rest hm hr hlt (by omega)

/-- the same for the awaited call -/
theorem async_match (T d start : Nat) : ∀ (strays : List Arrival) (now : Nat) (r : Arrival) (rest : List Arrival),
    (∀ a ∈ strays, a.kind = .stray) → r.kind = .reply →
    max (clock d now strays) r.time < start + T →
    asyncRecv T d start now (strays ++ r :: rest) = .delivered (max (clock d now strays) r.time + d) := by
  intro strays
  induction strays with
  | nil =>
    intro now r rest _ hr hlt
    simp only [clock] at hlt
    simp only [List.nil_append, asyncRecv, clock, hr]
    rw [if_neg (by omega)]
  | cons a more ih =>
    intro now r rest hs hr hlt
    have ha : a.kind = .stray := hs a (by simp)
    have hm : ∀ x ∈ more, x.kind = .stray := fun x hx => hs x (by simp [hx])
    simp only [clock] at hlt ⊢
    have hmono : ∀ (xs : List Arrival) (n : Nat), n ≤ clock d n xs := by
      intro xs
      induction xs with
      | nil => intro n; simp [clock]
      | cons x xs ihx => intro n; simp only [clock]; exact Nat.le_trans (by omega) (ihx _)
    have h1 := hmono more (max now a.time + d)
    simp only [List.cons_append, asyncRecv, ha]
    rw [if_neg (by omega)]
    exact ih _ r rest hm hr hlt

/-- the loop with the explicit socket option is the loop with one deadline, as long as the armed
value is what is left of the timeout -/
theorem armed_is_remaining (T d start : Nat) : ∀ (arrivals : List Arrival) (now cur : Nat),
    start ≤ now → now + cur = start + T →
    (syncRecvS T d start now cur arrivals).1 = syncRecv T d start now arrivals := by
  intro arrivals
  induction arrivals with
  | nil => intro now cur _ h; simp [syncRecvS, syncRecv, h]
  | cons a rest ih =>
    intro now cur hsn h
    unfold syncRecvS syncRecv
    simp only [h]
    split
    · rfl
    · rename_i hlt
      cases a.kind with
      | reply => rfl
      | garbage => rfl
      | stray =>
        simp only
        split
        · rfl
        · rename_i h2
          exact ih _ _ (by omega) (by omega)

/-- **C18.call_restores**: a call leaves the socket armed with the configured timeout, however it
ended (delivered, timed out after skipping datagrams, decode error) -/
theorem call_restores (d : Nat) (s : Sock) (start : Nat) (arrivals : List Arrival)
    (h : s.armed = s.configured) :
    (syncCall d s start arrivals).1.armed = s.configured ∧
    (syncCall d s start arrivals).1.configured = s.configured :=
  ⟨h, rfl⟩

/-- **C18.calls_bounded**: over any history of calls on one session, every call ends within the
configured timeout (plus the processing of one datagram), whatever the earlier calls did -/
theorem calls_bounded (d : Nat) : ∀ (calls : List (Nat × List Arrival)) (s : Sock), s.armed = s.configured →
    ∀ (k : Nat) (hk : k < calls.length), ((syncCalls d s calls)[k]?).isSome ∧
      ∀ e, (syncCalls d s calls)[k]? = some e → e.time ≤ (calls[k]).1 + s.configured + d := by
  intro calls
  induction calls with
  | nil => intro s _ k hk; simp at hk
  | cons c rest ih =>
    intro s hs k hk
    obtain ⟨start, arr⟩ := c
    simp only [syncCalls]
    cases k with
    | zero =>
      simp only [List.getElem?_cons_zero, Option.isSome_some, Option.some.injEq, true_and, List.getElem_cons_zero]
      intro e he
      subst he
      simp only [syncCall]
      rw [armed_is_remaining s.armed d start arr start s.armed (Nat.le_refl _) rfl, hs]
      exact sync_deadline s.configured d start arr start (by omega)
    | succ k =>
      have hr := call_restores d s start arr hs
      have := ih (syncCall d s start arr).1 (by rw [hr.1, hr.2]) k (by simpa using hk)
      simp only [List.getElem?_cons_succ, List.getElem_cons_succ]
      rw [hr.2] at this
      exact this

/-- **C18.late_reply**: a matching reply that comes to hand only at or after the deadline (because it
arrived late, or because skipping the datagrams before it used the time up) is not delivered: the
call ends with a timeout (sync and async), whatever follows it -/
theorem late_reply (T d start : Nat) : ∀ (strays : List Arrival) (now : Nat) (r : Arrival) (rest : List Arrival),
    (∀ a ∈ strays, a.kind = .stray) →
    start + T ≤ max (clock d now strays) r.time →
    (∃ t, syncRecv T d start now (strays ++ r :: rest) = .timeout t) ∧
    (∃ t, asyncRecv T d start now (strays ++ r :: rest) = .timeout t) := by
  intro strays
  induction strays with
  | nil =>
    intro now r rest _ hlate
    simp only [clock] at hlate
    constructor
    · simp only [List.nil_append, syncRecv]
      rw [if_pos hlate]; exact ⟨_, rfl⟩
    · simp only [List.nil_append, asyncRecv]
      rw [if_pos hlate]; exact ⟨_, rfl⟩
  | cons a more ih =>
    intro now r rest hs hlate
    have ha : a.kind = .stray := hs a (by simp)
    have hm : ∀ x ∈ more, x.kind = .stray := fun x hx => hs x (by simp [hx])
    simp only [clock] at hlate
    have h := ih (max now a.time + d) r rest hm hlate
    constructor
    · simp only [List.cons_append, syncRecv, ha]
      split
      · exact ⟨_, rfl⟩
      · split
        · exact ⟨_, rfl⟩
        · exact h.1
    · simp only [List.cons_append, asyncRecv, ha]
      split
      · exact ⟨_, rfl⟩
      · exact h.2

example : syncRecv 10 1 0 0 [⟨3, .stray⟩, ⟨10, .reply⟩] = .timeout 10 := by decide
example : asyncRecv 10 1 0 0 [⟨3, .stray⟩, ⟨12, .reply⟩, ⟨13, .reply⟩] = .timeout 10 := by decide

/-- **C18.outcome_trichotomy**: with `sync_match` and `late_reply`: the outcome of a call whose traffic
is a run of non-matching datagrams followed by the reply is decided by one comparison — delivered
iff the reply is in hand strictly before the deadline -/
theorem reply_iff (T d start : Nat) (strays : List Arrival) (now : Nat) (r : Arrival) (rest : List Arrival)
    (hs : ∀ a ∈ strays, a.kind = .stray) (hr : r.kind = .reply) (hst : start ≤ now) :
    (∃ t, syncRecv T d start now (strays ++ r :: rest) = .delivered t) ↔
      max (clock d now strays) r.time < start + T := by
  constructor
  · intro ⟨t, ht⟩
    by_cases h : max (clock d now strays) r.time < start + T
    · exact h
    · obtain ⟨⟨t', ht'⟩, _⟩ := late_reply T d start strays now r rest hs (by omega)
      rw [ht'] at ht; cases ht
  · intro h
    exact ⟨_, sync_match T d start strays now r rest hs hr h hst⟩

/-! ## The three kinds of the timing model are the three outcomes of the receive step

`Timing.Kind` abstracts a datagram to reply / stray / garbage. That abstraction is not free-floating: it is
what `Session.recvOne` (the model the correspondence check ties to `snmpsocket.rs`) does with the datagram in
the session's state at that moment. -/

open GufoSnmp in
/-- how the session, in its current state, treats a datagram -/
def kindOf (C : Ciphers) (s : Session) (dg : Bytes) : Kind :=
  match (s.recvOne C dg).2 with
  | .ok (some _) => .reply
  | .ok none => .stray
  | _ => .garbage

open GufoSnmp in
/-- the datagrams of a queue as arrivals that are all in hand at time 0, classified by the state the session is in
when it gets to them -/
def arrivalsOf (C : Ciphers) : Session → List Bytes → List Arrival
  | _, [] => []
  | s, dg :: rest => ⟨0, kindOf C s dg⟩ :: arrivalsOf C (s.recvOne C dg).1 rest

open GufoSnmp in
/-- **C18.loop_is_timing_model**: on a queue of datagrams the receive loop of the session model ends the way the
timing model says (any timeout `T ≥ 1`, processing time 0): it hands a PDU to the conversion layer exactly when the
timing model delivers, fails with the decoder's error exactly when the timing model reports a decode error, and
reports an empty queue (`BlockingIOError`, the socket's timeout) exactly when the timing model times out -/
theorem loop_is_timing_model (C : Ciphers) (op : OpKind) (it : Option GetIter) (T : Nat) (hT : 1 ≤ T) :
    ∀ (dgs : List Bytes) (s : Session),
    match asyncRecv T 0 0 0 (arrivalsOf C s dgs) with
    | .delivered _ => ∃ pdu, (C04.recvPdu C s dgs).1 = some pdu ∧ (s.recvLoop C op it dgs).1 = (toPython op pdu it).1
    | .timeout _ => (s.recvLoop C op it dgs).1 = .raise .BlockingIOError
    | .decodeError _ => (C04.recvPdu C s dgs).1 = none ∧
        ((∃ e, (s.recvLoop C op it dgs).1 = .raise (Gen.pyClass e)) ∨ ∃ w, (s.recvLoop C op it dgs).1 = .panic w)
  | [], s => by
    simp only [arrivalsOf, asyncRecv]
    rfl
  | dg :: rest, s => by
    have ih := loop_is_timing_model C op it T hT rest (s.recvOne C dg).1
    simp only [arrivalsOf, asyncRecv, kindOf, Nat.max_self, Nat.zero_add, Nat.add_zero]
    rw [if_neg (by omega)]
    simp only [C04.recvPdu, Session.recvLoop]
    cases hr : s.recvOne C dg with
    | mk s' r =>
      rw [hr] at ih
      cases r with
      | ok o =>
        cases o with
        | some p => exact ⟨p, rfl, rfl⟩
        | none => simpa using ih
      | err e => exact ⟨rfl, Or.inl ⟨e, rfl⟩⟩
      | panic w => exact ⟨rfl, Or.inr ⟨w, rfl⟩⟩

/-- `k` stray datagrams spaced `T - 1` apart, starting at `from` -/
def drip (T : Nat) : Nat → Nat → List Arrival
  | _, 0 => []
  | t, k + 1 => ⟨t + (T - 1), .stray⟩ :: drip T (t + (T - 1)) k

/-- **C18.old_unbounded** (the repaired defect D14, kept as a theorem about the old loop): with a
per-recv timeout, `k` stray datagrams spaced closer than the timeout keep the call alive for
`k * (T - 1) + T` ticks: no bound independent of the traffic exists -/
theorem old_unbounded (T : Nat) (hT : 1 ≤ T) : ∀ (k now : Nat),
    syncRecvOld T 0 now (drip T now k) = .timeout (now + k * (T - 1) + T) := by
  intro k
  induction k with
  | zero => intro now; simp [drip, syncRecvOld]
  | succ k ih =>
    intro now
    simp only [drip, syncRecvOld]
    rw [if_neg (by omega)]
    have : max now (now + (T - 1)) + 0 = now + (T - 1) := by omega
    rw [this, ih]
    congr 1
    rw [Nat.succ_mul]; omega

/-- and the repaired loop on the very same traffic stops at the deadline -/
theorem fixed_on_drip (T : Nat) (k now : Nat) :
    (syncRecv T 0 now now (drip T now k)).time ≤ now + T := by
  have := sync_deadline T 0 now (drip T now k) now (by omega)
  omega

example : syncRecv 10 0 0 0 (drip 10 0 5) = .timeout 10 := by decide
example : syncRecvOld 10 0 0 (drip 10 0 5) = .timeout 55 := by decide
example : syncRecv 10 1 0 0 [⟨3, .stray⟩, ⟨6, .reply⟩] = .delivered 7 := by decide

end GufoSnmp.C18
