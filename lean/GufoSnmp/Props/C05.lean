import GufoSnmp.Lemmas.AgentWalk
import GufoSnmp.Lemmas.BulkWalk
/-!
# C05 — a walk returns the whole subtree, in order, once

`Spec.agentNext`, `Spec.subtree`, `Spec.arcsLt`, `Spec.derOid`, `Spec.dotted` are independent
definitions (RFC 3416 GetNext over a sorted finite MIB; X.690 OID content; canonical text).
The walk is the composition of the library's conversion layer (`OpGetNext::to_python`,
`GetIter`) with that agent: every request names the last accepted OID and the agent answers
with the least entry above it. All finite MIBs (no size bound), all bases.
-/
namespace GufoSnmp.C05
open GufoSnmp Gen Spec Walk

/-- a fresh iterator for `base` (as `GetIter::new` builds it) -/
def freshIter (base : Arcs) (maxRep : Int) : GetIter := ⟨encA base, encA base, maxRep⟩

/-- **C05.getnext_walk**: against an RFC 3416 agent over any finite sorted MIB, the GetNext walk
from any valid base yields exactly the entries strictly below the base, in MIB order, with their
dotted names and values, and then stops. -/
theorem getnext_walk (mib : List (Arcs × Value)) (hm : MibOK mib) (base : Arcs) (hb : ValidOid base)
    (maxRep : Int) (fuel : Nat) (hf : mib.length < fuel) :
    agentWalk mib base (freshIter base maxRep) fuel = (subtree base mib).map itemOf := by
  rw [subtree_eq_above]
  have hlen : (above mib base).length ≤ mib.length := List.length_filter_le _ _
  exact agentWalk_above mib hm base hb _ base (freshIter base maxRep) fuel rfl (by omega) hb (Or.inl rfl) rfl rfl

/-- **C05.getbulk_walk**: the same for GetBulk with any `max-repetitions = n ≥ 1`: composed with any
agent that answers a request naming `encA o` with the RFC 3416 §4.2.3 response for `o` (the next `n`
entries, padded with endOfMibView once the MIB is exhausted), the GetBulk iterator yields exactly
the entries strictly below the base, in MIB order, each once, and then stops — for every finite
sorted MIB, every base and every `n` -/
theorem getbulk_walk (mib : List (Arcs × Value)) (hm : MibOK mib) (base : Arcs) (hb : ValidOid base)
    (n : Nat) (hn : 1 ≤ n) (agent : Bytes → List VarBind)
    (ha : ∀ o, ValidOid o → agent (encA o) = bulkResp mib o n)
    (maxRep : Int) (fuel : Nat) (hf : mib.length < fuel) :
    bulkWalk agent (freshIter base maxRep) fuel = (subtree base mib).map itemOf := by
  rw [subtree_eq_above]
  have hlen : (above mib base).length ≤ mib.length := List.length_filter_le _ _
  exact bulkWalk_above mib hm base hb n hn agent ha _ base (freshIter base maxRep) fuel rfl (by omega) hb
    (Or.inl rfl) rfl rfl

theorem arcsLt_tri : ∀ (a b : Arcs), a = b ∨ arcsLt a b = true ∨ arcsLt b a = true
  | [], [] => Or.inl rfl
  | [], _ :: _ => Or.inr (Or.inl rfl)
  | _ :: _, [] => Or.inr (Or.inr rfl)
  | x :: xs, y :: ys => by
    by_cases h1 : x < y
    · exact Or.inr (Or.inl (by rw [arcsLt, if_pos h1]))
    · by_cases h2 : y < x
      · exact Or.inr (Or.inr (by rw [arcsLt, if_pos h2]))
      · have : x = y := by omega
        subst this
        have step : ∀ (p q : Arcs), arcsLt (x :: p) (x :: q) = arcsLt p q := by
          intro p q; rw [arcsLt, if_neg h1, if_neg h1]
        rcases arcsLt_tri xs ys with rfl | h | h
        · exact Or.inl rfl
        · exact Or.inr (Or.inl (by rw [step]; exact h))
        · exact Or.inr (Or.inr (by rw [step]; exact h))

/-- the encoding of valid OIDs is injective, so an agent may be given as a function of the encoded name -/
theorem encA_inj (a b : Arcs) (ha : ValidOid a) (hb : ValidOid b) (h : encA a = encA b) : a = b := by
  rcases arcsLt_tri a b with rfl | hlt | hlt
  · rfl
  · obtain ⟨a0, a1, r, rfl, h0, h1, _⟩ := ha
    obtain ⟨b0, b1, s, rfl, g0, g1, _⟩ := hb
    have := cmpArcs_enc a0 a1 r b0 b1 s ⟨h0, h1⟩ ⟨g0, g1⟩ hlt
    simp only [encA] at h
    rw [h] at this
    exact absurd this (cmpArcs_irrefl _)
  · obtain ⟨a0, a1, r, rfl, h0, h1, _⟩ := ha
    obtain ⟨b0, b1, s, rfl, g0, g1, _⟩ := hb
    have := cmpArcs_enc b0 b1 s a0 a1 r ⟨g0, g1⟩ ⟨h0, h1⟩ hlt
    simp only [encA] at h
    rw [h] at this
    exact absurd this (cmpArcs_irrefl _)

/-- the hypothesis of `getbulk_walk` is satisfiable for every MIB and every `n` -/
theorem agent_exists (mib : List (Arcs × Value)) (n : Nat) :
    ∃ agent : Bytes → List VarBind, ∀ o, ValidOid o → agent (encA o) = bulkResp mib o n := by
  classical
  refine ⟨fun b => if h : ∃ o, ValidOid o ∧ encA o = b then bulkResp mib (Classical.choose h) n else [], ?_⟩
  intro o ho
  have h : ∃ o', ValidOid o' ∧ encA o' = encA o := ⟨o, ho, rfl⟩
  simp only [dif_pos h]
  have hs := Classical.choose_spec h
  rw [encA_inj _ _ hs.1 ho hs.2]

/-- GetBulk and GetNext walks agree (both are the subtree) -/
theorem bulk_eq_next (mib : List (Arcs × Value)) (hm : MibOK mib) (base : Arcs) (hb : ValidOid base)
    (n : Nat) (hn : 1 ≤ n) (agent : Bytes → List VarBind)
    (ha : ∀ o, ValidOid o → agent (encA o) = bulkResp mib o n) (m1 m2 : Int) (fuel : Nat) (hf : mib.length < fuel) :
    bulkWalk agent (freshIter base m1) fuel = agentWalk mib base (freshIter base m2) fuel := by
  rw [getbulk_walk mib hm base hb n hn agent ha m1 fuel hf, getnext_walk mib hm base hb m2 fuel hf]

/-- the fresh iterator is what `GetIter(oid)` builds from the canonical text of the base -/
theorem freshIter_new (a0 a1 : Nat) (r : List Nat) (h0 : a0 ≤ 2) (h1 : a1 ≤ 39) (hr : ∀ x ∈ r, x < 2 ^ 32)
    (maxRep : Int) :
    GetIter.new (dotted (a0 :: a1 :: r)) maxRep = .ok (freshIter (a0 :: a1 :: r) maxRep) := by
  unfold GetIter.new
  have h := oidFromStr_dotted a0 a1 r h0 h1 hr
  cases hf : oidFromStr (dotted (a0 :: a1 :: r)) with
  | ok b =>
    rw [hf] at h
    simp only [Outcome.bind, Outcome.ok.injEq, derOid, Option.some.injEq] at h
    subst h
    rfl
  | err e => rw [hf] at h; cases h
  | panic w => rw [hf] at h; cases h

/-- **C05.each_once**: the yielded OIDs are pairwise distinct (strictly increasing) -/
theorem each_once (mib : List (Arcs × Value)) (hm : MibOK mib) (base : Arcs) :
    ((subtree base mib).map (·.1)).Pairwise (fun x y => arcsLt x y = true) := by
  unfold subtree
  have := hm.sorted
  unfold SortedMib at this
  exact (List.Pairwise.map _ (fun _ _ h => h) (List.Pairwise.filter _ this))

/-- **C05.prefix_bytes_arcs**: the subtree test on canonical BER bytes is the subtree test on arcs -/
theorem prefix_bytes_arcs (a0 a1 : Nat) (r : List Nat) (b0 b1 : Nat) (s : List Nat)
    (ha : a0 ≤ 2 ∧ a1 ≤ 39) (hb : b0 ≤ 2 ∧ b1 ≤ 39) :
    oidStartsWith (encOidArcs a0 a1 r) (encOidArcs b0 b1 s) = (a0 :: a1 :: r).isPrefixOf (b0 :: b1 :: s) :=
  startsWith_enc a0 a1 r b0 b1 s ha hb

/-- **C05.order_bytes_arcs**: `cmp_arcs` on canonical encodings follows the arc order (also
across multi-octet arcs such as 16383 / 16384 where byte order and arc order differ) -/
theorem order_bytes_arcs (a0 a1 : Nat) (r : List Nat) (b0 b1 : Nat) (s : List Nat)
    (ha : a0 ≤ 2 ∧ a1 ≤ 39) (hb : b0 ≤ 2 ∧ b1 ≤ 39)
    (h : arcsLt (a0 :: a1 :: r) (b0 :: b1 :: s) = true) :
    cmpArcs (encOidArcs b0 b1 s) (encOidArcs a0 a1 r) = .gt := cmpArcs_enc a0 a1 r b0 b1 s ha hb h

/-- **C05.end_of_mib**: the agent's end-of-MIB answers (endOfMibView bound to the request OID in
v2c / v3; the request echoed with NULL under noSuchName in v1) end the walk -/
theorem end_of_mib (it : GetIter) (es ei : Int) (ps : List Pdu) :
    walkNext it (.getResponse 0 es ei [⟨it.nextOid, .endOfMibView⟩] :: ps) = ⟨[], [it.nextOid], .stop⟩ ∧
    walkNext it (.getResponse 0 es ei [⟨it.nextOid, .null⟩] :: ps) = ⟨[], [it.nextOid], .stop⟩ := by
  constructor
  · unfold walkNext opGetNextToPython
    simp only
    cases hs : it.setNextOid it.nextOid with
    | mk it1 ok => cases ok <;> simp [Value.isData, stopAsync]
  · unfold walkNext opGetNextToPython
    simp only
    cases hs : it.setNextOid it.nextOid with
    | mk it1 ok => cases ok <;> simp [Value.isData, stopAsync]

/-- **C05.fetch_policy**: `fetch()` uses GetBulk only when the session is not v1 and bulk is allowed -/
theorem fetch_policy (isV1 allowBulk : Bool) :
    Py.fetchUsesBulk isV1 allowBulk = (!isV1 && allowBulk) := by
  cases isV1 <;> cases allowBulk <;> rfl

/-! Non-vacuity: a concrete MIB satisfying the hypotheses -/
def demoMib : List (Arcs × Value) :=
  [([1, 3, 6, 1, 1], .int 5), ([1, 3, 6, 1, 2], .octets [1, 2]), ([1, 3, 6, 2], .counter32 7)]

example : MibOK demoMib where
  sorted := by unfold SortedMib demoMib; decide
  valid := by
    intro e he
    simp only [demoMib, List.mem_cons, List.mem_nil_iff, or_false] at he
    rcases he with rfl | rfl | rfl
    · exact ⟨1, 3, [6, 1, 1], rfl, by decide, by decide, by decide⟩
    · exact ⟨1, 3, [6, 1, 2], rfl, by decide, by decide, by decide⟩
    · exact ⟨1, 3, [6, 2], rfl, by decide, by decide, by decide⟩
  data := by
    intro e he
    simp only [demoMib, List.mem_cons, List.mem_nil_iff, or_false] at he
    rcases he with rfl | rfl | rfl <;> rfl
  conv := by
    intro e he
    simp only [demoMib, List.mem_cons, List.mem_nil_iff, or_false] at he
    rcases he with rfl | rfl | rfl
    · exact ⟨_, rfl⟩
    · exact ⟨_, rfl⟩
    · exact ⟨_, rfl⟩

example : (subtree [1, 3, 6, 1] demoMib).map (·.1) = [[1, 3, 6, 1, 1], [1, 3, 6, 1, 2]] := by decide

end GufoSnmp.C05
