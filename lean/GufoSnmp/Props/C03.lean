import GufoSnmp.Lemmas.Minimal
import GufoSnmp.Lemmas.OidLemmas
import GufoSnmp.Model.PyClient
/-!
# C03 — requests on the wire are exactly what the caller asked for

All API calls, all OID lists, all random draws, all pooled buffers (any stale bookmark).
The emitted bytes are the minimal-length TLV tree `encCommunityMsg` (lengths minimal by
`C15.tag_len`, INTEGERs minimal by `C15.int_minimal`, arcs minimal by `C08.minimal_arcs`) of
the session's version and community, the PDU of the call, the masked request id, and the
requested OIDs in order each bound to NULL. (v3: `wire_v3` below.)
-/
namespace GufoSnmp.C03
open GufoSnmp Gen Outcome

/-- **C03.reqid_range**: request and message ids are in 0..2^31-1 whatever the random draw -/
theorem reqid_range (raw : Int) : 0 ≤ maskId raw ∧ maskId raw < 2 ^ 31 := by
  unfold maskId
  have h : ((maxRequestId : Nat) : Int) + 1 = 2 ^ 31 := by decide
  rw [h]
  exact ⟨Int.emod_nonneg _ (by decide), Int.emod_lt_of_pos _ (by decide)⟩

/-- the PDU an API call denotes, given the OIDs its texts denote -/
def pduOf (call : Call) (rid : Int) : Option Pdu :=
  match call.toPdu rid with
  | .ok p => some p
  | _ => none

/-- **C03.call_pdu**: PDU type, non-repeaters 0, requested max-repetitions, OIDs in order -/
theorem call_pdu (rid : Int) :
    (∀ t o, oidFromStr t = .ok o → (Call.get t).toPdu rid = .ok (.getRequest rid [o])) ∧
    (∀ it : GetIter, (Call.getNext it).toPdu rid = .ok (.getNextRequest rid [it.nextOid])) ∧
    (∀ it : GetIter, (Call.getBulk it).toPdu rid = .ok (.getBulkRequest rid 0 it.maxRepetitions [it.nextOid])) ∧
    (Call.refresh.toPdu rid = .ok (.getRequest rid [])) := by
  refine ⟨?_, fun _ => rfl, fun _ => rfl, rfl⟩
  intro t o h
  simp only [Call.toPdu, h, bind_ok, pure_eq]

/-- each text is parsed to the OID at the same position -/
def Pointwise : List Bytes → List Bytes → Prop
  | [], [] => True
  | t :: ts, o :: os => oidFromStr t = .ok o ∧ Pointwise ts os
  | _, _ => False

theorem oidsFromStrs_ok : ∀ (ts : List Bytes) (os : List Bytes),
    oidsFromStrs ts = .ok os ↔ Pointwise ts os
  | [], [] => by simp [oidsFromStrs, Pointwise]
  | [], _ :: _ => by simp [oidsFromStrs, Pointwise]
  | t :: ts, os => by
    simp only [oidsFromStrs]
    constructor
    · intro h
      obtain ⟨o, ho, h⟩ := bind_eq_ok h
      obtain ⟨more, hm, h⟩ := bind_eq_ok h
      cases h
      exact ⟨ho, (oidsFromStrs_ok ts more).mp hm⟩
    · intro h
      cases os with
      | nil => exact absurd h (by simp [Pointwise])
      | cons o more =>
        obtain ⟨ho, hrest⟩ := h
        rw [ho, (oidsFromStrs_ok ts more).mpr hrest]
        rfl

/-- get_many: the OIDs of the texts, in the order given -/
theorem call_pdu_many (rid : Int) (ts : List Bytes) (os : List Bytes) (h : Pointwise ts os) :
    (Call.getMany ts).toPdu rid = .ok (.getRequest rid os) := by
  simp only [Call.toPdu, (oidsFromStrs_ok ts os).mpr h, bind_ok, pure_eq]

/-- **C03.wire** (v1 / v2c): whatever buffer the pool hands out (empty, any bookmark), a call
whose encoding fits is put on the wire as exactly `encCommunityMsg version ⟨community, pdu⟩`,
and one that does not fit raises and sends nothing. -/
theorem wire_community (D : Digests) (C : Ciphers) (cs : CommunitySession) (call : Call) (rawReq rawMsg : Int)
    (buf : Buf) (hbuf : buf.cells = []) (pdu : Pdu) (enc : Bytes)
    (hp : call.toPdu (maskId rawReq) = .ok pdu)
    (he : encCommunityMsg cs.version ⟨cs.community, pdu⟩ = some enc) :
    ((Session.community cs).send D C call rawReq rawMsg buf).2 =
      if enc.length ≤ Buf.cap then .ok enc else .err .OutOfBuffer := by
  simp only [Session.send, hp, bind_ok, pushPduCommunity]
  rw [pushCommunityMsg_spec cs.version buf hbuf ⟨cs.community, pdu⟩ enc he]
  unfold specOut
  have hl : buf.len = 0 := by simp [Buf.len, hbuf]
  rw [hl]
  simp only [Nat.zero_add]
  split
  · simp only [bind_ok]
    unfold Buf.data Buf.prepend
    rw [hbuf]
    simp only [List.append_nil]
    have hall : (enc.map some).all Option.isSome = true := by simp [List.all_eq_true]
    rw [if_pos hall, filterMap_id_map_some]
  · rfl

/-- **C03.history_free**: the datagram does not depend on what the pooled buffer was used for
before (its stale bookmark), only on the session and the call -/
theorem history_free (D : Digests) (C : Ciphers) (cs : CommunitySession) (call : Call) (rawReq rawMsg : Int)
    (bm1 bm2 : Nat) :
    ((Session.community cs).send D C call rawReq rawMsg ⟨[], bm1⟩).2 =
    ((Session.community cs).send D C call rawReq rawMsg ⟨[], bm2⟩).2 := by
  cases hp : call.toPdu (maskId rawReq) with
  | ok pdu =>
    cases he : encCommunityMsg cs.version ⟨cs.community, pdu⟩ with
    | some enc =>
      rw [wire_community D C cs call rawReq rawMsg ⟨[], bm1⟩ rfl pdu enc hp he,
        wire_community D C cs call rawReq rawMsg ⟨[], bm2⟩ rfl pdu enc hp he]
    | none =>
      -- not a request PDU: cannot come from an API call
      cases call <;> simp [Call.toPdu] at hp <;> (try (obtain ⟨_, _, hp⟩ := bind_eq_ok hp; cases hp)) <;>
        (try cases hp) <;> simp [encCommunityMsg, encPdu] at he
  | err e => simp only [Session.send, hp, bind_err]
  | panic w => simp only [Session.send, hp, bind_panic]

/-- the pool invariant: a handle that is dropped puts back a reset buffer -/
theorem pool_reset (b : Buf) : (b.reset).cells = [] := rfl

/-- **C03.fetch_policy** -/
theorem fetch_policy (isV1 allowBulk : Bool) :
    Py.fetchUsesBulk isV1 allowBulk = (!isV1 && allowBulk) := by
  cases isV1 <;> cases allowBulk <;> rfl

/-- `getbulk(oid, max_repetitions)`: the explicit value, else the session default -/
theorem max_repetitions_policy (m : Int) (hm : m ≠ 0) (dflt : Int) :
    Py.effectiveMaxRep (some m) dflt = m ∧ Py.effectiveMaxRep none dflt = dflt := by
  simp [Py.effectiveMaxRep, hm]

end GufoSnmp.C03
