import GufoSnmp.Model.Pool
import GufoSnmp.Lemmas.Minimal
import GufoSnmp.Lemmas.OidLemmas
import GufoSnmp.Model.PyClient
import GufoSnmp.Props.C09
import GufoSnmp.Props.C13
/-!
# C03 — requests on the wire are exactly what the caller asked for

All API calls, all OID lists, all random draws, all pooled buffers (any stale bookmark).
The emitted bytes are the minimal-length TLV tree `encCommunityMsg` (lengths minimal by
`C15.tag_len`, INTEGERs minimal by `C15.int_minimal`, arcs minimal by `C08.minimal_arcs`) of
the session's version and community, the PDU of the call, the masked request id, and the
requested OIDs in order each bound to NULL. (v3: `wire_v3` below.)
-/
namespace GufoSnmp.C03
open GufoSnmp Gen Outcome

/-- **C03.reqid_range**: request and message ids are in 0..2^31-1 whatever the random draw -/
theorem reqid_range (raw : Int) : 0 ≤ maskId raw ∧ maskId raw < 2 ^ 31 := by
  unfold maskId
  have h : ((maxRequestId : Nat) : Int) + 1 = 2 ^ 31 := by decide
  rw [h]
  exact ⟨Int.emod_nonneg _ (by decide), Int.emod_lt_of_pos _ (by decide)⟩

/-- the PDU an API call denotes, given the OIDs its texts denote -/
def pduOf (call : Call) (rid : Int) : Option Pdu :=
  match call.toPdu rid with
  | .ok p => some p
  | _ => none

/-- **C03.call_pdu**: PDU type, non-repeaters 0, requested max-repetitions, OIDs in order -/
theorem call_pdu (rid : Int) :
    (∀ t o, oidFromStr t = .ok o → (Call.get t).toPdu rid = .ok (.getRequest rid [o])) ∧
    (∀ it : GetIter, (Call.getNext it).toPdu rid = .ok (.getNextRequest rid [it.nextOid])) ∧
    (∀ it : GetIter, (Call.getBulk it).toPdu rid = .ok (.getBulkRequest rid 0 it.maxRepetitions [it.nextOid])) ∧
    (Call.refresh.toPdu rid = .ok (.getRequest rid [])) := by
  refine ⟨?_, fun _ => rfl, fun _ => rfl, rfl⟩
  intro t o h
  simp only [Call.toPdu, h, bind_ok, pure_eq]

/-- each text is parsed to the OID at the same position -/
def Pointwise : List Bytes → List Bytes → Prop
  | [], [] => True
  | t :: ts, o :: os => oidFromStr t = .ok o ∧ Pointwise ts os
  | _, _ => False

theorem oidsFromStrs_ok : ∀ (ts : List Bytes) (os : List Bytes),
    oidsFromStrs ts = .ok os ↔ Pointwise ts os
  | [], [] => by simp [oidsFromStrs, Pointwise]
  | [], _ :: _ => by simp [oidsFromStrs, Pointwise]
  | t :: ts, os => by
    simp only [oidsFromStrs]
    constructor
    · intro h
      obtain ⟨o, ho, h⟩ := bind_eq_ok h
      obtain ⟨more, hm, h⟩ := bind_eq_ok h
      cases h
      exact ⟨ho, (oidsFromStrs_ok ts more).mp hm⟩
    · intro h
      cases os with
      | nil => exact absurd h (by simp [Pointwise])
      | cons o more =>
        obtain ⟨ho, hrest⟩ := h
        rw [ho, (oidsFromStrs_ok ts more).mpr hrest]
        rfl

/-- get_many: the OIDs of the texts, in the order given -/
theorem call_pdu_many (rid : Int) (ts : List Bytes) (os : List Bytes) (h : Pointwise ts os) :
    (Call.getMany ts).toPdu rid = .ok (.getRequest rid os) := by
  simp only [Call.toPdu, (oidsFromStrs_ok ts os).mpr h, bind_ok, pure_eq]

/-- **C03.wire** (v1 / v2c): whatever buffer the pool hands out (empty, any bookmark), a call
whose encoding fits is put on the wire as exactly `encCommunityMsg version ⟨community, pdu⟩`,
and one that does not fit raises and sends nothing. -/
theorem wire_community (D : Digests) (C : Ciphers) (cs : CommunitySession) (call : Call) (rawReq rawMsg : Int)
    (buf : Buf) (hbuf : buf.cells = []) (pdu : Pdu) (enc : Bytes)
    (hp : call.toPdu (maskId rawReq) = .ok pdu)
    (he : encCommunityMsg cs.version ⟨cs.community, pdu⟩ = some enc) :
    ((Session.community cs).send D C call rawReq rawMsg buf).2 =
      if enc.length ≤ Buf.cap then .ok enc else .err .OutOfBuffer := by
  simp only [Session.send, hp, bind_ok, pushPduCommunity]
  rw [pushCommunityMsg_spec cs.version buf hbuf ⟨cs.community, pdu⟩ enc he]
  unfold specOut
  have hl : buf.len = 0 := by simp [Buf.len, hbuf]
  rw [hl]
  simp only [Nat.zero_add]
  split
  · simp only [bind_ok]
    unfold Buf.data Buf.prepend
    rw [hbuf]
    simp only [List.append_nil]
    have hall : (enc.map some).all Option.isSome = true := by simp [List.all_eq_true]
    rw [if_pos hall, filterMap_id_map_some]
  · rfl

/-- **C03.history_free**: the datagram does not depend on what the pooled buffer was used for
before (its stale bookmark), only on the session and the call -/
theorem history_free (D : Digests) (C : Ciphers) (cs : CommunitySession) (call : Call) (rawReq rawMsg : Int)
    (bm1 bm2 : Nat) :
    ((Session.community cs).send D C call rawReq rawMsg ⟨[], bm1⟩).2 =
    ((Session.community cs).send D C call rawReq rawMsg ⟨[], bm2⟩).2 := by
  cases hp : call.toPdu (maskId rawReq) with
  | ok pdu =>
    cases he : encCommunityMsg cs.version ⟨cs.community, pdu⟩ with
    | some enc =>
      rw [wire_community D C cs call rawReq rawMsg ⟨[], bm1⟩ rfl pdu enc hp he,
        wire_community D C cs call rawReq rawMsg ⟨[], bm2⟩ rfl pdu enc hp he]
    | none =>
      -- not a request PDU: cannot come from an API call
      cases call <;> simp [Call.toPdu] at hp <;> (try (obtain ⟨_, _, hp⟩ := bind_eq_ok hp; cases hp)) <;>
        (try cases hp) <;> simp [encCommunityMsg, encPdu] at he
  | err e => simp only [Session.send, hp, bind_err]
  | panic w => simp only [Session.send, hp, bind_panic]

/-! ## The pool: every buffer it hands out is empty, whatever was done with the pool before

This is what discharges the hypothesis `buf.cells = []` of `wire_community`, `wire_v3`, `wire_v3_priv`
and `history_free` for every request of a process, not just the first. -/

/-- all buffers waiting in the pool are empty -/
def Pool.Clean (p : Pool) : Prop := ∀ b ∈ p.free, b.cells = []

theorem pool_acquire_clean (p : Pool) (h : Pool.Clean p) :
    (p.acquire).1.cells = [] ∧ Pool.Clean (p.acquire).2 := by
  unfold Pool.acquire
  cases hf : p.free with
  | nil => exact ⟨rfl, by rw [Pool.Clean, hf]; intro b hb; cases hb⟩
  | cons b rest =>
    refine ⟨h b (by rw [hf]; simp), ?_⟩
    intro x hx
    exact h x (by rw [hf]; simp [hx])

theorem pool_release_clean (p : Pool) (b : Buf) (h : Pool.Clean p) : Pool.Clean (p.release b) := by
  intro x hx
  simp only [Pool.release, List.mem_cons] at hx
  rcases hx with rfl | hx
  · rfl
  · exact h x hx

theorem pool_step_clean (s s' : PoolState) (op : PoolOp) (r : String) (h : Pool.Clean s.pool)
    (hs : s.step op = some (s', r)) : Pool.Clean s'.pool := by
  cases op with
  | acquire =>
    simp only [PoolState.step, Option.some.injEq, Prod.mk.injEq] at hs
    rw [← hs.1]
    exact (pool_acquire_clean s.pool h).2
  | write k bytes =>
    simp only [PoolState.step] at hs
    split at hs
    · split at hs
      · simp only [Option.some.injEq, Prod.mk.injEq] at hs; rw [← hs.1]; exact h
      · simp only [Option.some.injEq, Prod.mk.injEq] at hs; rw [← hs.1]; exact h
      · cases hs
    · cases hs
  | drop k =>
    simp only [PoolState.step] at hs
    split at hs
    · simp only [Option.some.injEq, Prod.mk.injEq] at hs
      rw [← hs.1]
      exact pool_release_clean s.pool _ h
    · cases hs

/-- the pool after a program -/
def poolAfter : PoolState → List PoolOp → Option PoolState
  | s, [] => some s
  | s, op :: more =>
    match s.step op with
    | some (s', _) => poolAfter s' more
    | none => none

/-- **C03.pool_hands_out_empty**: after any program of acquires, writes through live handles and drops —
any number of handles out at once, in any order — the next `acquire` returns an empty buffer -/
theorem pool_hands_out_empty : ∀ (prog : List PoolOp) (s s' : PoolState), Pool.Clean s.pool →
    poolAfter s prog = some s' → Pool.Clean s'.pool ∧ (s'.pool.acquire).1.cells = []
  | [], s, s', h, hr => by
    simp only [poolAfter, Option.some.injEq] at hr
    subst hr
    exact ⟨h, (pool_acquire_clean s.pool h).1⟩
  | op :: more, s, s', h, hr => by
    simp only [poolAfter] at hr
    cases hs : s.step op with
    | none => rw [hs] at hr; cases hr
    | some v =>
      obtain ⟨s1, r⟩ := v
      rw [hs] at hr
      exact pool_hands_out_empty more s1 s' (pool_step_clean s s1 op r h hs) hr

/-- the process starts with an empty pool, which is clean -/
theorem pool_initial_clean : Pool.Clean ({} : PoolState).pool := by intro b hb; cases hb

example : (({} : PoolState).run [.acquire, .write 0 [1, 2], .acquire, .drop 0, .acquire, .drop 1, .acquire]) =
    some ["0", "-", "0", "-", "0", "-", "0"] := by decide

/-- the pool invariant: a handle that is dropped puts back a reset buffer -/
theorem pool_reset (b : Buf) : (b.reset).cells = [] := rfl

/-- **C03.fetch_policy** -/
theorem fetch_policy (isV1 allowBulk : Bool) :
    Py.fetchUsesBulk isV1 allowBulk = (!isV1 && allowBulk) := by
  cases isV1 <;> cases allowBulk <;> rfl

/-- `getbulk(oid, max_repetitions)`: the explicit value, else the session default -/
theorem max_repetitions_policy (m : Int) (hm : m ≠ 0) (dflt : Int) :
    Py.effectiveMaxRep (some m) dflt = m ∧ Py.effectiveMaxRep none dflt = dflt := by
  simp [Py.effectiveMaxRep, hm]

/-- **C03.max_repetitions_zero**: an explicit 0 is "not given": the session default goes on the wire -/
theorem max_repetitions_zero (dflt : Int) : Py.effectiveMaxRep (some 0) dflt = dflt := by
  simp [Py.effectiveMaxRep]

/-! ## v3 -/

/-- the message a v3 call denotes for a session without privacy: the session's credentials and
engine state, the masked message id, the probe flag, and the scoped PDU `(engine id, "", pdu)` -/
def v3Request (s : V3Session) (pdu : Pdu) (rawMsg : Int) : V3Msg :=
  v3MsgOf { s with msgId := maskId rawMsg }
    (match pdu with | .getRequest _ vars => vars.isEmpty | _ => false) [] (.plaintext ⟨s.engineId, pdu⟩)

/-- what an independent decoder must read back from that message -/
theorem v3Request_fields (s : V3Session) (pdu : Pdu) (rawMsg : Int) :
    (v3Request s pdu rawMsg).msgId = maskId rawMsg ∧
    0 ≤ (v3Request s pdu rawMsg).msgId ∧ (v3Request s pdu rawMsg).msgId < 2 ^ 31 ∧
    (v3Request s pdu rawMsg).usm.engineId = s.engineId ∧ (v3Request s pdu rawMsg).usm.engineBoots = s.engineBoots ∧
    (v3Request s pdu rawMsg).usm.engineTime = s.engineTime ∧ (v3Request s pdu rawMsg).usm.userName = s.userName ∧
    (v3Request s pdu rawMsg).flagAuth = s.authKey.hasAuth ∧ (v3Request s pdu rawMsg).flagPriv = s.privKey.hasPriv ∧
    (v3Request s pdu rawMsg).data = .plaintext ⟨s.engineId, pdu⟩ :=
  ⟨rfl, (reqid_range rawMsg).1, (reqid_range rawMsg).2, rfl, rfl, rfl, rfl, rfl, rfl, rfl⟩

/-- **C03.wire_v3**: a v3 session without privacy puts on the wire exactly `encV3` (the independent
minimal encoding of version 3, msgID, msgMaxSize, msgFlags, USM model, USM parameters and the
scoped PDU) of `v3Request`, with the 12 placeholder octets replaced by the HMAC when the session
signs — whatever buffer the pool hands out; a message that does not fit raises and sends nothing -/
theorem wire_v3 (D : Digests) (hD : D.WF) (C : Ciphers) (s : V3Session) (hnp : s.privKey.hasPriv = false)
    (hk : ∀ alg key, s.authKey = .digest alg key → key.length = alg.keySize)
    (pdu : Pdu) (rawMsg : Int) (buf : Buf) (hb : buf.cells = []) (d enc : Bytes)
    (hd : encScoped ⟨s.engineId, pdu⟩ = some d) (he : encV3 (v3Request s pdu rawMsg) = some enc) :
    (pushPduV3 D C s pdu rawMsg buf).2 =
      if enc.length ≤ Buf.cap then
        (match s.authKey with
         | .noAuth => .ok enc
         | .digest alg key =>
           .ok (v3Prefix (v3Request s pdu rawMsg) d ++
                (Spec.hmac96 (D.hash alg) key enc ++ v3Suffix (v3Request s pdu rawMsg) d)))
      else .err .OutOfBuffer := by
  rw [C13.scoped_and_probe D C s pdu rawMsg buf hnp]
  have hmd : encMsgData (v3Request s pdu rawMsg).data = some d := hd
  show finishV3 D s.authKey (v3Request s pdu rawMsg) buf = _
  split
  · rename_i hfit
    cases hak : s.authKey with
    | noAuth =>
      simp only
      exact (C09.noauth_wire D (v3Request s pdu rawMsg) buf hb d enc hmd he hfit).1
    | digest alg key =>
      simp only
      have hph : (v3Request s pdu rawMsg).usm.authParams = List.replicate 12 0 :=
        (C09.msg_flags { s with msgId := maskId rawMsg } _ [] _).2.1 alg key hak
      exact (C09.auth_wire D hD alg key (hk alg key hak) (v3Request s pdu rawMsg) hph buf hb d enc hmd he hfit).1
  · rename_i hfit
    exact C09.finish_oob D s.authKey (v3Request s pdu rawMsg) buf hb d enc hmd he hfit

theorem encrypt_hasPriv (C : Ciphers) (k : PrivKey) (sp : ScopedPdu) (boots time : Nat) :
    (k.encrypt C sp boots time).1.hasPriv = k.hasPriv := by
  cases k with
  | noPriv => rfl
  | des key preIv salt buf =>
    simp only [PrivKey.encrypt]
    cases privSerialize desBlockSize buf sp with
    | ok p => rfl
    | err e => rfl
    | panic w => rfl
  | aes key salt buf =>
    simp only [PrivKey.encrypt]
    cases privSerialize aesBlockSize buf sp with
    | ok p => rfl
    | err e => rfl
    | panic w => rfl

/-- the message of a session WITH privacy, given what the cipher returned -/
def v3RequestPriv (s : V3Session) (pdu : Pdu) (rawMsg : Int) (ct pp : Bytes) : V3Msg :=
  v3MsgOf { s with msgId := maskId rawMsg }
    (match pdu with | .getRequest _ vars => vars.isEmpty | _ => false) pp (.encrypted ct)

/-- **C03.wire_v3_priv**: with a privacy key, msgData is the OCTET STRING of the ciphertext the key
object returned for the scoped PDU `(engine id, "", pdu)` under the session's boots / time
(`C11.des_encrypt` / `C11.aes_encrypt` say what that ciphertext is), msgPrivacyParameters is the
transmitted salt, everything else as in `wire_v3` -/
theorem wire_v3_priv (D : Digests) (hD : D.WF) (C : Ciphers) (s : V3Session) (hp : s.privKey.hasPriv = true)
    (hk : ∀ alg key, s.authKey = .digest alg key → key.length = alg.keySize)
    (pdu : Pdu) (rawMsg : Int) (buf : Buf) (hb : buf.cells = []) (ct pp enc : Bytes)
    (hc : (s.privKey.encrypt C ⟨s.engineId, pdu⟩ (asU32 s.engineBoots) (asU32 s.engineTime)).2 = .ok (ct, pp))
    (he : encV3 (v3RequestPriv s pdu rawMsg ct pp) = some enc) :
    (pushPduV3 D C s pdu rawMsg buf).2 =
      if enc.length ≤ Buf.cap then
        (match s.authKey with
         | .noAuth => .ok enc
         | .digest alg key =>
           .ok (v3Prefix (v3RequestPriv s pdu rawMsg ct pp) (tlvBytes (UInt8.ofNat tagOctetString) ct) ++
                (Spec.hmac96 (D.hash alg) key enc ++
                 v3Suffix (v3RequestPriv s pdu rawMsg ct pp) (tlvBytes (UInt8.ofNat tagOctetString) ct))))
      else .err .OutOfBuffer := by
  have hfin : (pushPduV3 D C s pdu rawMsg buf).2 =
      finishV3 D s.authKey (v3RequestPriv s pdu rawMsg ct pp) buf := by
    unfold pushPduV3
    simp only [hp, if_true]
    have hhp := encrypt_hasPriv C s.privKey ⟨s.engineId, pdu⟩ (asU32 s.engineBoots) (asU32 s.engineTime)
    cases hres : s.privKey.encrypt C ⟨s.engineId, pdu⟩ (asU32 s.engineBoots) (asU32 s.engineTime) with
    | mk pk' r =>
      rw [hres] at hc hhp
      simp only at hc hhp
      subst hc
      simp only [v3RequestPriv, v3MsgOf, hhp]
      rfl
  rw [hfin]
  have hmd : encMsgData (v3RequestPriv s pdu rawMsg ct pp).data = some (tlvBytes (UInt8.ofNat tagOctetString) ct) := rfl
  split
  · rename_i hfit
    cases hak : s.authKey with
    | noAuth =>
      simp only
      exact (C09.noauth_wire D _ buf hb _ enc hmd he hfit).1
    | digest alg key =>
      simp only
      have hph : (v3RequestPriv s pdu rawMsg ct pp).usm.authParams = List.replicate 12 0 :=
        (C09.msg_flags { s with msgId := maskId rawMsg } _ pp _).2.1 alg key hak
      exact (C09.auth_wire D hD alg key (hk alg key hak) _ hph buf hb _ enc hmd he hfit).1
  · rename_i hfit
    exact C09.finish_oob D s.authKey _ buf hb _ enc hmd he hfit

end GufoSnmp.C03
