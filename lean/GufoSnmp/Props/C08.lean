import GufoSnmp.Lemmas.OidLemmas
/-!
# C08 — the OID sent is the OID asked for; invalid OID text is refused

All strings (UTF-8 byte strings of any length). `Spec.derOid`, `Spec.dotted`, `Spec.b128` are
independent definitions of the X.690 content octets and of the canonical text.
Reading of the property: round-trip identity is claimed for canonical text; Rust's
`u32::from_str` also accepts a single leading `+` and leading zeros in an arc, which denote
the same arc ("never a different OID").
-/
namespace GufoSnmp.C08
open GufoSnmp Gen Outcome Spec

/-- **C08.accept_valid**: every OID with at least two arcs, first ≤ 2, second ≤ 39, all
< 2^32, written canonically, is accepted and encoded as its X.690 content -/
theorem accept_valid (a0 a1 : Nat) (rest : List Nat) (h0 : a0 ≤ 2) (h1 : a1 ≤ 39)
    (hr : ∀ a ∈ rest, a < 2 ^ 32) :
    ∃ b, oidFromStr (dotted (a0 :: a1 :: rest)) = .ok b ∧ derOid (a0 :: a1 :: rest) = some b := by
  have h := oidFromStr_dotted a0 a1 rest h0 h1 hr
  cases hf : oidFromStr (dotted (a0 :: a1 :: rest)) with
  | ok b => rw [hf] at h; simp only [Outcome.bind, Outcome.ok.injEq] at h; exact ⟨b, rfl, h.symm⟩
  | err e => rw [hf] at h; cases h
  | panic w => rw [hf] at h; cases h

/-- **C08.sound**: an accepted text is transmitted as exactly the OID its parts denote -/
theorem sound (s b : Bytes) (h : oidFromStr s = .ok b) :
    ∃ a0 a1 rest, parseArcs (splitDots s) = some (a0 :: a1 :: rest) ∧ a0 ≤ 2 ∧ a1 ≤ 39 ∧
      (∀ a ∈ rest, a < 2 ^ 32) ∧ derOid (a0 :: a1 :: rest) = some b :=
  oidFromStr_sound s b h

/-- what a part denotes: optional `+`, then one or more ASCII digits read in base ten -/
theorem part_denotes (p : Bytes) (n : Nat) (h : parseArcText p = some n) :
    stripPlus p ≠ [] ∧ (stripPlus p).all isDigit = true ∧ digitsVal (stripPlus p) = n ∧ n < 2 ^ 32 :=
  parseArcText_some p n h

/-- **C08.reject**: every other text is refused with `InvalidData` — never a panic, never a
different OID -/
theorem reject (s : Bytes)
    (h : ¬ ∃ a0 a1 rest, parseArcs (splitDots s) = some (a0 :: a1 :: rest) ∧ a0 ≤ 2 ∧ a1 ≤ 39) :
    oidFromStr s = .err .InvalidData := by
  rcases oidFromStr_total s with ⟨b, hb⟩ | he
  · obtain ⟨a0, a1, rest, hp, h0, h1, _, _⟩ := oidFromStr_sound s b hb
    exact absurd ⟨a0, a1, rest, hp, h0, h1⟩ h
  · exact he

/-- **C08.print_parse**: an OID received from the agent is rendered as its canonical text,
and that text parses back to the same bytes -/
theorem print_parse (a0 a1 : Nat) (rest : List Nat) (h0 : a0 ≤ 2) (h1 : a1 ≤ 39)
    (hr : ∀ a ∈ rest, a < 2 ^ 32) (b : Bytes) (hb : derOid (a0 :: a1 :: rest) = some b) :
    oidToStr b = .ok (dotted (a0 :: a1 :: rest)) ∧ oidFromStr (dotted (a0 :: a1 :: rest)) = .ok b := by
  refine ⟨oidToStr_der a0 a1 rest h0 h1 hr b hb, ?_⟩
  obtain ⟨b', hf, hd⟩ := accept_valid a0 a1 rest h0 h1 hr
  rw [hb] at hd; cases hd; exact hf

/-- **C08.minimal_arcs**: the arc encoder is the minimal base-128 form -/
theorem minimal_arcs (n : Nat) (hn : n < 2 ^ 32) : encArc n = b128 n := encArc_eq_b128 n hn

/-- the text of a sent OID, parsed and printed, is the canonical text of the same arcs -/
theorem parse_print (s b : Bytes) (h : oidFromStr s = .ok b) :
    ∃ arcs, parseArcs (splitDots s) = some arcs ∧ oidToStr b = .ok (dotted arcs) := by
  obtain ⟨a0, a1, rest, hp, h0, h1, hr, hd⟩ := oidFromStr_sound s b h
  exact ⟨_, hp, oidToStr_der a0 a1 rest h0 h1 hr b hd⟩

/-- **C08.no_alias**: two accepted texts that are transmitted as the same octets denote the same
arcs — the text-to-wire map identifies nothing but spellings (`+`, leading zeros) of one OID. -/
theorem no_alias (s1 s2 b : Bytes) (h1 : oidFromStr s1 = .ok b) (h2 : oidFromStr s2 = .ok b) :
    parseArcs (splitDots s1) = parseArcs (splitDots s2) := by
  obtain ⟨a0, a1, r, hp, ha0, ha1, hr, hd⟩ := oidFromStr_sound s1 b h1
  obtain ⟨c0, c1, q, hq, hc0, hc1, hqr, hd'⟩ := oidFromStr_sound s2 b h2
  have e1 := oidToStr_der a0 a1 r ha0 ha1 hr b hd
  have e2 := oidToStr_der c0 c1 q hc0 hc1 hqr b hd'
  rw [e1] at e2
  have ed : dotted (a0 :: a1 :: r) = dotted (c0 :: c1 :: q) := Outcome.ok.inj e2
  have em := congrArg splitDots ed
  rw [splitDots_dotted _ (by simp), splitDots_dotted _ (by simp)] at em
  have b1 : ∀ a ∈ a0 :: a1 :: r, a < 2 ^ 32 := by
    intro a ha
    simp only [List.mem_cons] at ha
    rcases ha with rfl | rfl | ha
    · omega
    · omega
    · exact hr a ha
  have b2 : ∀ a ∈ c0 :: c1 :: q, a < 2 ^ 32 := by
    intro a ha
    simp only [List.mem_cons] at ha
    rcases ha with rfl | rfl | ha
    · omega
    · omega
    · exact hqr a ha
  have p1 := parseArcs_digits _ b1
  have p2 := parseArcs_digits _ b2
  rw [em, p2] at p1
  rw [hp, hq]; exact p1.symm

/-! Non-vacuity -/
example : derOid [1, 3] = some [43] := by decide
example : (1 : Nat) ≤ 2 ∧ (3 : Nat) ≤ 39 ∧ ∀ a ∈ [6, 1, 4294967295], a < 2 ^ 32 := by decide
example : parseArcText [43, 48, 54] = some 6 := by decide

/-! ## Refused before anything is sent -/

/-- **C08.refused_sends_nothing**: a `get` whose OID text the parser refuses hands no datagram to the
socket, whatever the session (v1 / v2c / v3, any keys): the parser's error is the outcome of the call -/
theorem refused_sends_nothing (D : Digests) (C : Ciphers) (s : Session) (t : Bytes) (rawReq rawMsg : Int) (buf : Buf)
    (e : SnmpError) (h : oidFromStr t = .err e) :
    (s.send D C (.get t) rawReq rawMsg buf).2 = .err e := by
  cases s with
  | community cs => simp [Session.send, Call.toPdu, h]
  | v3 vs => simp [Session.send, Call.toPdu, h]

/-- one refused name anywhere in a `get_many` list (after names that parse) refuses the whole request -/
theorem oidsFromStrs_refuses : ∀ (pre : List Bytes) (t : Bytes) (post : List Bytes) (e : SnmpError),
    (∀ x ∈ pre, ∃ o, oidFromStr x = .ok o) → oidFromStr t = .err e →
    oidsFromStrs (pre ++ t :: post) = .err e
  | [], t, post, e, _, h => by simp [oidsFromStrs, h]
  | x :: pre, t, post, e, hp, h => by
    obtain ⟨o, ho⟩ := hp x (by simp)
    have := oidsFromStrs_refuses pre t post e (fun y hy => hp y (by simp [hy])) h
    simp [oidsFromStrs, ho, this]

/-- **C08.refused_many_sends_nothing** -/
theorem refused_many_sends_nothing (D : Digests) (C : Ciphers) (s : Session) (pre : List Bytes) (t : Bytes)
    (post : List Bytes) (rawReq rawMsg : Int) (buf : Buf) (e : SnmpError)
    (hp : ∀ x ∈ pre, ∃ o, oidFromStr x = .ok o) (h : oidFromStr t = .err e) :
    (s.send D C (.getMany (pre ++ t :: post)) rawReq rawMsg buf).2 = .err e := by
  have hm := oidsFromStrs_refuses pre t post e hp h
  cases s with
  | community cs => simp [Session.send, Call.toPdu, hm]
  | v3 vs => simp [Session.send, Call.toPdu, hm]

end GufoSnmp.C08
