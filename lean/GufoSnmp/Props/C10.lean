import GufoSnmp.Props.C04
import GufoSnmp.Props.C13

/-! # C10 — unauthenticated or forged v3 replies are never accepted

The property does NOT hold of the code (known finding D12: `unwrap_pdu` never sees the raw
datagram and verifies nothing about `msgAuthenticationParameters`, the auth flag or the privacy
level).  This file states the failure as theorems about the model (so the finding is a checked
fact, not a remark), keeps the part that does hold as `accept_partial`, and shows the exemption of
Reports.  The check replays the forgery classes on the real code and lists them as known findings. -/

namespace GufoSnmp.C10
open GufoSnmp

/-- the acceptance decision never looks at the MAC, the auth flag or the priv flag -/
theorem mac_ignored (C : Ciphers) (s : V3Session) (m : V3Msg) (fa fp fr : Bool) (ap : Bytes) :
    unwrapV3 C s { m with flagAuth := fa, flagPriv := fp, flagReport := fr,
                          usm := { m.usm with authParams := ap } } = unwrapV3 C s m := by
  unfold unwrapV3
  cases hd : m.data with
  | plaintext x => simp only []
  | encrypted ct =>
    simp only []
    have : s.privKey.decrypt C ct { m.usm with authParams := ap } = s.privKey.decrypt C ct m.usm := by
      unfold PrivKey.decrypt
      cases s.privKey <;> rfl
    rw [this]

/-- **C10 fails**: every otherwise-matching plaintext GetResponse is delivered to a session that
holds an authentication (and privacy) key, whatever its flags and MAC are -/
theorem forged_delivered (C : Ciphers) (s : V3Session) (m : V3Msg) (sp : ScopedPdu)
    (hd : m.data = .plaintext sp) (hu : s.userName = m.usm.userName) (he : m.usm.engineId = s.engineId)
    (hm : m.msgId = s.msgId) (hc : sp.pdu.check s.requestId = true) :
    (unwrapV3 C s m).2 = .ok (some sp.pdu) := by
  unfold unwrapV3
  rw [hd]
  simp only [hu, he, hm, hc, beq_self_eq_true, Bool.or_true, Bool.and_self, Bool.not_true,
    Bool.false_eq_true, if_false]

/-- the property as a formula: with an authentication key, a delivered non-Report PDU came in a
message flagged authenticated (the weakest reading; MAC validity is not even expressible because
the datagram is gone by then) -/
def Holds (C : Ciphers) : Prop :=
  ∀ (s : V3Session) (m : V3Msg) (r es ei : Int) (vars : List VarBind),
    s.authKey.hasAuth = true → (unwrapV3 C s m).2 = .ok (some (.getResponse r es ei vars)) → m.flagAuth = true

/-- **C10 is false of the model** (concrete witness: MD5 session, unflagged message without MAC) -/
theorem not_holds (C : Ciphers) : ¬ Holds C := by
  intro h
  let s : V3Session := { engineId := [1], userName := [117], authKey := .digest .md5 (List.replicate 16 0),
                         privKey := .noPriv, msgId := 7, requestId := 9 }
  let sp : ScopedPdu := ⟨[1], .getResponse 9 0 0 []⟩
  let m : V3Msg := { msgId := 7, flagAuth := false, flagPriv := false, flagReport := false,
                     usm := ⟨[1], 0, 0, [117], [], []⟩, data := .plaintext sp }
  have hdel := forged_delivered C s m sp rfl rfl rfl rfl (by simp [sp, s, Pdu.check])
  have := h s m 9 0 0 [] rfl hdel
  cases this

/-- **C10.accept_partial**: what is checked: user name, engine id, message id, request id -/
theorem accept_partial (C : Ciphers) (s : V3Session) (m : V3Msg) (pdu : Pdu)
    (h : (unwrapV3 C s m).2 = .ok (some pdu)) :
    s.userName = m.usm.userName ∧ (s.engineId = [] ∨ m.usm.engineId = s.engineId) ∧ m.msgId = s.msgId ∧
      pdu.check s.requestId = true :=
  C04.deliver_sound_v3 C s m pdu h

/-- **C10.impostor_not_delivered**: whatever the form of the message (clear text or encrypted, any flags,
any MAC), a reply under another user name, from another engine than the one the session is bound to, or
with another message id is never delivered -/
theorem impostor_not_delivered (C : Ciphers) (s : V3Session) (m : V3Msg) (pdu : Pdu)
    (hn : s.userName ≠ m.usm.userName ∨ (s.engineId ≠ [] ∧ m.usm.engineId ≠ s.engineId) ∨ m.msgId ≠ s.msgId) :
    (unwrapV3 C s m).2 ≠ .ok (some pdu) := by
  intro h
  obtain ⟨h1, h2, h3, _⟩ := accept_partial C s m pdu h
  rcases hn with hu | ⟨he1, he2⟩ | hm
  · exact hu h1
  · rcases h2 with h2 | h2
    · exact he1 h2
    · exact he2 h2
  · exact hm h3

/-- **C10.stale_request_not_delivered**: a non-Report PDU is delivered only when it answers the outstanding
request id — a recorded reply to an earlier request cannot be replayed into a later one -/
theorem stale_request_not_delivered (C : Ciphers) (s : V3Session) (m : V3Msg) (pdu : Pdu)
    (hc : pdu.check s.requestId = false) : (unwrapV3 C s m).2 ≠ .ok (some pdu) := by
  intro h
  obtain ⟨_, _, _, h4⟩ := accept_partial C s m pdu h
  rw [hc] at h4; cases h4

/-- Reports are exempt from the request-id check (the property allows accepting them
unauthenticated: that is how discovery works) -/
theorem report_exempt (body : Bytes) (rid : Int) : (Pdu.report body).check rid = true := rfl

/-- a message encrypted under another key is not delivered: decryption failure = skip -/
theorem undecryptable_skipped (C : Ciphers) (s : V3Session) (m : V3Msg) (ct : Bytes) (e : Gen.SnmpError)
    (hd : m.data = .encrypted ct) (hf : s.privKey.decrypt C ct m.usm = .err e) :
    unwrapV3 C s m = (s, .ok none) := by
  unfold unwrapV3
  rw [hd]
  simp only [hf]

/-- **C10.wide_integer_refused**: an INTEGER of more than eight content octets — e.g. an id written as nine octets
`01 xx…`, which is 2^64 + id — is refused by the decoder whatever its octets: it can never alias a smaller id -/
theorem wide_integer_refused (i : Bytes) (h : Header) (hl : 8 < h.length) : decodeInt i h = .err .InvalidData := by
  unfold decodeInt
  rw [if_neg (by omega), if_pos hl]

end GufoSnmp.C10
