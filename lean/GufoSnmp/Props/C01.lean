import GufoSnmp.Lemmas.PrivLemmas
import GufoSnmp.Lemmas.RecvErr
/-!
# C01 — no datagram can crash the client: the receive path is total

Quantifiers: every byte string (no length bound), every session (v1 / v2c / v3 with any key
state), every pending operation, every iterator state, every sequence of arriving datagrams,
every pair of block ciphers that return whole blocks. Termination is carried by Lean
accepting the definitions (structural / well-founded recursion on the remaining input, no
fuel); the `no progress` guards of the varbind loops are shown unreachable inside
`parseVars_np` / `parseRespVars_np`.
-/
namespace GufoSnmp.C01
open GufoSnmp Gen

/-- the exception classes the property allows on the receive path (SnmpError family,
TimeoutError / BlockingIOError, OSError, ValueError, StopIteration / StopAsyncIteration), plus
`RuntimeError` (documented for `get_many`) and `NotImplementedError` (the class of
`SnmpError::NotImplemented` in the error table; not shown unreachable here) -/
def Documented : List PyExc :=
  [.SnmpError, .SnmpDecodeError, .SnmpEncodeError, .SnmpAuthError, .NoSuchInstance, .ValueError,
   .BlockingIOError, .TimeoutError, .OSError, .StopIteration, .StopAsyncIteration, .RuntimeError,
   .NotImplementedError]

/-- **C01.exc_table**: every `SnmpError` maps to a documented exception class (the table is
regenerated from `src/error.rs` on every run). -/
theorem exc_table (e : SnmpError) : pyClass e ∈ Documented := by
  cases e <;> decide

/-- the crate's own exception classes derive from `SnmpError`, which derives from `Exception`
(so none of them is a `BaseException`-only class like `PanicException`) -/
theorem exc_bases : pyBase .SnmpDecodeError = .SnmpError ∧ pyBase .SnmpEncodeError = .SnmpError ∧
    pyBase .SnmpAuthError = .SnmpError ∧ pyBase .NoSuchInstance = .SnmpError ∧
    pyBase .SnmpError = .Exception := by decide

/-- **C01.header_total** -/
theorem header_total (i : Bytes) : (parseHeader i).isPanic = false := parseHeader_np i

/-- **C01.value_total** -/
theorem value_total (i : Bytes) : (valueFromBer i).isPanic = false := valueFromBer_np i

/-- **C01.pdu_total** -/
theorem pdu_total (i : Bytes) : (pduTryFrom i).isPanic = false := pduTryFrom_np i

/-- **C01.msg_total**: the three message decoders -/
theorem msg_total (i : Bytes) :
    (v1TryFrom i).isPanic = false ∧ (v2cTryFrom i).isPanic = false ∧ (v3TryFrom i).isPanic = false :=
  ⟨communityMsgTryFrom_np _ i, communityMsgTryFrom_np _ i, v3TryFrom_np i⟩

/-- **C01.decrypt_total**: the privacy decrypt path, for any key state, ciphertext and USM
parameters (in particular any `msgPrivacyParameters` length) -/
theorem decrypt_total (C : Ciphers) (hC : C.WF) (k : PrivKey) (data : Bytes) (usm : Usm) :
    (k.decrypt C data usm).isPanic = false := decrypt_np C hC k data usm

/-- **C01.normalize_total** -/
theorem normalize_total (rel oid : Bytes) : (tryNormalize rel oid).isPanic = false :=
  tryNormalize_np rel oid

/-- **C01.recv_total**: whatever arrives, the receiving call does not panic. -/
theorem recv_total (C : Ciphers) (hC : C.WF) (s : Session) (op : OpKind) (it : Option GetIter)
    (dgs : List Bytes) : (s.recvLoop C op it dgs).1.isPanic = false :=
  recvLoop_np C hC op dgs s it

/-! every exception the conversion layer raises is documented -/

theorem liftErr_doc {α} (x : Outcome α) (k : α → PyOut) (e : PyExc)
    (hk : ∀ a, k a = .raise e → e ∈ Documented) (h : liftErr x k = .raise e) : e ∈ Documented := by
  unfold liftErr at h
  cases x with
  | ok a => exact hk a h
  | err er => cases h; exact exc_table er
  | panic w => cases h

theorem opGet_doc (p : Pdu) (e : PyExc) (h : opGetToPython p = .raise e) : e ∈ Documented := by
  unfold opGetToPython at h
  split at h
  · split at h
    · cases h
    · split at h
      · cases h; exact exc_table _
      · cases h; exact exc_table _
      · cases h; exact exc_table _
      · cases h
      · exact liftErr_doc _ _ e (fun a ha => by cases ha) h
    · cases h; exact exc_table _
  · cases h; exact exc_table _
  · cases h; exact exc_table _

theorem getManyLoop_doc : ∀ (vars : List VarBind) (acc : List (Bytes × PyScalar)) (e : PyExc),
    getManyLoop vars acc = .raise e → e ∈ Documented
  | [], _, _, h => by simp [getManyLoop] at h
  | var :: more, acc, e, h => by
    unfold getManyLoop at h
    split at h
    · exact getManyLoop_doc more acc e h
    · split at h
      · split at h
        · exact getManyLoop_doc more _ e h
        · cases h; decide
        · cases h
      · cases h; decide
      · cases h

theorem opGetMany_doc (p : Pdu) (e : PyExc) (h : opGetManyToPython p = .raise e) : e ∈ Documented := by
  unfold opGetManyToPython at h
  split at h
  · exact getManyLoop_doc _ _ e h
  · cases h; exact exc_table _
  · cases h; exact exc_table _

theorem opGetNext_doc (p : Pdu) (it : Option GetIter) (e : PyExc)
    (h : (opGetNextToPython p it).1 = .raise e) : e ∈ Documented := by
  unfold opGetNextToPython at h
  split at h
  · cases h; decide
  · split at h
    · split at h
      · cases h; decide
      · simp only at h
        split at h
        · cases h; decide
        · split at h
          · cases h; decide
          · refine liftErr_doc _ _ e (fun a ha => ?_) h
            exact liftErr_doc _ _ e (fun b hb => by cases hb) ha
      · cases h; exact exc_table _
    · cases h; exact exc_table _
    · cases h; exact exc_table _

theorem getBulkLoop_doc : ∀ (vars : List VarBind) (it : GetIter) (acc : List (Option (Bytes × Bytes × PyScalar)))
    (out : PyOut) (e : PyExc), (getBulkLoop vars it acc).1 = .error out → out = .raise e → e ∈ Documented
  | [], _, _, _, _, h, _ => by simp [getBulkLoop] at h
  | var :: more, it, acc, out, e, h, he => by
    unfold getBulkLoop at h
    split at h
    · exact getBulkLoop_doc more it acc out e h he
    · simp only at h
      split at h
      · cases h
      · split at h
        · split at h
          · exact getBulkLoop_doc more _ _ out e h he
          · cases h; cases he; exact exc_table _
          · cases h; cases he
        · cases h; cases he; exact exc_table _
        · cases h; cases he

theorem opGetBulk_doc (p : Pdu) (it : Option GetIter) (e : PyExc)
    (h : (opGetBulkToPython p it).1 = .raise e) : e ∈ Documented := by
  unfold opGetBulkToPython at h
  split at h
  · cases h; decide
  · split at h
    · split at h
      · cases h; decide
      · split at h
        · split at h
          · cases h; decide
          · cases h
        · rename_i out it' heq
          exact getBulkLoop_doc _ _ _ out e (by rw [heq]) h
    · cases h; exact exc_table _
    · cases h; exact exc_table _

theorem toPython_doc (op : OpKind) (p : Pdu) (it : Option GetIter) (e : PyExc)
    (h : (toPython op p it).1 = .raise e) : e ∈ Documented := by
  cases op <;> simp only [toPython] at h
  · exact opGet_doc p e h
  · exact opGetMany_doc p e h
  · exact opGetNext_doc p it e h
  · exact opGetBulk_doc p it e h
  · cases h

/-- **C01.recv_documented**: an exception raised by the receiving call is one of the
documented classes. -/
theorem recv_documented (C : Ciphers) (op : OpKind) :
    ∀ (dgs : List Bytes) (s : Session) (it : Option GetIter) (e : PyExc),
      (s.recvLoop C op it dgs).1 = .raise e → e ∈ Documented
  | [], _, _, e, h => by
    simp only [Session.recvLoop] at h; cases h; exact exc_table _
  | dg :: rest, s, it, e, h => by
    unfold Session.recvLoop at h
    split at h
    · exact toPython_doc op _ it e h
    · exact recv_documented C op rest _ it e h
    · cases h; exact exc_table _
    · cases h


/-! ## The exact family: what a receiving call can raise, class by class

`Documented` above is the image of the whole error table. The receive path reaches less: every error of
the datagram decoders is of the `SnmpDecodeError` class (`Lemmas/DecErr.lean`), so `NotImplementedError`
cannot come out of a receiving call; `RuntimeError` only out of `get_many` (documented there). -/

/-- the classes a receiving call can raise: the property's list plus `RuntimeError` (get_many) -/
def Raised : List PyExc :=
  [.SnmpError, .SnmpDecodeError, .SnmpEncodeError, .SnmpAuthError, .NoSuchInstance, .ValueError,
   .BlockingIOError, .TimeoutError, .OSError, .StopIteration, .StopAsyncIteration, .RuntimeError]

theorem raised_of_decode {e : SnmpError} (h : pyClass e = .SnmpDecodeError) : pyClass e ∈ Raised := by
  rw [h]; decide

theorem oidToStr_de (oid : Bytes) : DE (oidToStr oid) := by
  unfold oidToStr
  split
  · exact de_err _ (by decide)
  · exact de_ok _

theorem valueToPy_de (v : Value) : DE (valueToPy v) := by
  cases v <;> simp only [valueToPy] <;> first
    | exact de_ok _
    | exact de_panic _
    | (apply de_bind (oidToStr_de _); intro _ _; exact de_ok _)

macro "raised_tac" : tactic =>
  `(tactic| first
    | decide
    | (apply raised_of_decode; exact oidToStr_de _ _ ‹_›)
    | (apply raised_of_decode; exact valueToPy_de _ _ ‹_›))

theorem liftErr_r {α} (x : Outcome α) (k : α → PyOut) (e : PyExc) (hx : DE x)
    (hk : ∀ a, k a = .raise e → e ∈ Raised) (h : liftErr x k = .raise e) : e ∈ Raised := by
  unfold liftErr at h
  cases x with
  | ok a => exact hk a h
  | err er => cases h; exact raised_of_decode (hx er rfl)
  | panic w => cases h

theorem opGet_r (p : Pdu) (e : PyExc) (h : opGetToPython p = .raise e) : e ∈ Raised := by
  unfold opGetToPython at h
  split at h
  · split at h
    · cases h
    · split at h
      · cases h; raised_tac
      · cases h; raised_tac
      · cases h; raised_tac
      · cases h
      · exact liftErr_r _ _ e (valueToPy_de _) (fun a ha => by cases ha) h
    · cases h; raised_tac
  · cases h; raised_tac
  · cases h; raised_tac

theorem getManyLoop_r : ∀ (vars : List VarBind) (acc : List (Bytes × PyScalar)) (e : PyExc),
    getManyLoop vars acc = .raise e → e ∈ Raised
  | [], _, _, h => by simp [getManyLoop] at h
  | var :: more, acc, e, h => by
    unfold getManyLoop at h
    split at h
    · exact getManyLoop_r more acc e h
    · split at h
      · split at h
        · exact getManyLoop_r more _ e h
        · cases h; raised_tac
        · cases h
      · cases h; raised_tac
      · cases h

theorem opGetMany_r (p : Pdu) (e : PyExc) (h : opGetManyToPython p = .raise e) : e ∈ Raised := by
  unfold opGetManyToPython at h
  split at h
  · exact getManyLoop_r _ _ e h
  · cases h; raised_tac
  · cases h; raised_tac

theorem opGetNext_r (p : Pdu) (it : Option GetIter) (e : PyExc)
    (h : (opGetNextToPython p it).1 = .raise e) : e ∈ Raised := by
  unfold opGetNextToPython at h
  split at h
  · cases h; raised_tac
  · split at h
    · split at h
      · cases h; raised_tac
      · simp only at h
        split at h
        · cases h; raised_tac
        · split at h
          · cases h; raised_tac
          · refine liftErr_r _ _ e (oidToStr_de _) (fun a ha => ?_) h
            exact liftErr_r _ _ e (valueToPy_de _) (fun b hb => by cases hb) ha
      · cases h; raised_tac
    · cases h; raised_tac
    · cases h; raised_tac

theorem getBulkLoop_r : ∀ (vars : List VarBind) (it : GetIter) (acc : List (Option (Bytes × Bytes × PyScalar)))
    (out : PyOut) (e : PyExc), (getBulkLoop vars it acc).1 = .error out → out = .raise e → e ∈ Raised
  | [], _, _, _, _, h, _ => by simp [getBulkLoop] at h
  | var :: more, it, acc, out, e, h, he => by
    unfold getBulkLoop at h
    split at h
    · exact getBulkLoop_r more it acc out e h he
    · simp only at h
      split at h
      · cases h
      · split at h
        · split at h
          · exact getBulkLoop_r more _ _ out e h he
          · cases h; cases he; raised_tac
          · cases h; cases he
        · cases h; cases he; raised_tac
        · cases h; cases he

theorem opGetBulk_r (p : Pdu) (it : Option GetIter) (e : PyExc)
    (h : (opGetBulkToPython p it).1 = .raise e) : e ∈ Raised := by
  unfold opGetBulkToPython at h
  split at h
  · cases h; raised_tac
  · split at h
    · split at h
      · cases h; raised_tac
      · split at h
        · split at h
          · cases h; raised_tac
          · cases h
        · rename_i out it' heq
          exact getBulkLoop_r _ _ _ out e (by rw [heq]) h
    · cases h; raised_tac
    · cases h; raised_tac

theorem toPython_r (op : OpKind) (p : Pdu) (it : Option GetIter) (e : PyExc)
    (h : (toPython op p it).1 = .raise e) : e ∈ Raised := by
  cases op <;> simp only [toPython] at h
  · exact opGet_r p e h
  · exact opGetMany_r p e h
  · exact opGetNext_r p it e h
  · exact opGetBulk_r p it e h
  · cases h

theorem recv_raised (C : Ciphers) (op : OpKind) :
    ∀ (dgs : List Bytes) (s : Session) (it : Option GetIter) (e : PyExc),
      (s.recvLoop C op it dgs).1 = .raise e → e ∈ Raised
  | [], _, _, e, h => by
    simp only [Session.recvLoop] at h; cases h; raised_tac
  | dg :: rest, s, it, e, h => by
    unfold Session.recvLoop at h
    split at h
    · exact toPython_r op _ it e h
    · exact recv_raised C op rest _ it e h
    · rename_i s' er heq
      cases h
      exact raised_of_decode (recvOne_decode_class C s dg er (by rw [heq]))
    · cases h


/-- **C01.recv_listed**: whatever arrives, an exception raised by the receiving call belongs to the
family the property lists (SnmpError family, TimeoutError / BlockingIOError, OSError, ValueError,
StopIteration / StopAsyncIteration) or is the `RuntimeError` documented for `get_many`; in particular
never `NotImplementedError`, and never anything else for a datagram that fails to decode -/
theorem recv_listed (C : Ciphers) (op : OpKind) (dgs : List Bytes) (s : Session) (it : Option GetIter) (e : PyExc)
    (h : (s.recvLoop C op it dgs).1 = .raise e) : e ∈ Raised ∧ e ≠ .NotImplementedError := by
  have := recv_raised C op dgs s it e h
  exact ⟨this, by intro he; rw [he] at this; revert this; decide⟩

/-- **C01.recv_trichotomy**: value, documented exception — never a panic. -/
theorem recv_trichotomy (C : Ciphers) (hC : C.WF) (s : Session) (op : OpKind) (it : Option GetIter)
    (dgs : List Bytes) :
    (∃ v, (s.recvLoop C op it dgs).1 = .value v) ∨
    (∃ e, (s.recvLoop C op it dgs).1 = .raise e ∧ e ∈ Documented) := by
  have hnp := recv_total C hC s op it dgs
  cases hr : (s.recvLoop C op it dgs).1 with
  | value v => exact Or.inl ⟨v, rfl⟩
  | raise e => exact Or.inr ⟨e, rfl, recv_documented C op dgs s it e hr⟩
  | panic w => rw [hr] at hnp; cases hnp

/-! Non-vacuity: the cipher contract is satisfiable. -/
def pad (n : Nat) (b : Bytes) : Bytes := (b ++ List.replicate n 0).take n

example : Ciphers.WF ⟨fun _ b => pad 8 b, fun _ b => pad 8 b, fun _ b => pad 16 b⟩ where
  desEnc_len := by intro k b; simp [pad, List.length_take]
  desDec_len := by intro k b; simp [pad, List.length_take]
  aesEnc_len := by intro k b; simp [pad, List.length_take]
  des_inv := by
    intro k b hb
    simp only [pad]
    have h1 : (b ++ List.replicate 8 0).take 8 = b := by
      rw [List.take_append_of_le_length (by omega)]; rw [← hb]; exact List.take_length
    rw [h1, h1]

end GufoSnmp.C01
