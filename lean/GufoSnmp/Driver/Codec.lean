import GufoSnmp.Model.Op
/-! Line-protocol helpers for the model driver: parsing of fields, rendering of results. -/
namespace GufoSnmp.Driver
open GufoSnmp Gen

def hexVal (c : Char) : Option Nat :=
  if '0' ≤ c ∧ c ≤ '9' then some (c.toNat - '0'.toNat)
  else if 'a' ≤ c ∧ c ≤ 'f' then some (c.toNat - 'a'.toNat + 10)
  else if 'A' ≤ c ∧ c ≤ 'F' then some (c.toNat - 'A'.toNat + 10)
  else none

def parseHexChars : List Char → Option Bytes
  | [] => some []
  | a :: b :: rest => do
    let x ← hexVal a
    let y ← hexVal b
    let r ← parseHexChars rest
    pure (UInt8.ofNat (x * 16 + y) :: r)
  | _ => none

def parseHex (s : String) : Option Bytes :=
  if s = "-" then some [] else if s.isEmpty then none else parseHexChars s.toList

def hexDigit (n : Nat) : Char := if n < 10 then Char.ofNat (48 + n) else Char.ofNat (87 + n)

def hex (bs : Bytes) : String :=
  if bs.isEmpty then "-"
  else String.ofList (bs.flatMap (fun b => [hexDigit (b.toNat / 16), hexDigit (b.toNat % 16)]))

def parseNat (s : String) : Option Nat := if s.isEmpty then none else s.toNat?

def parseInt (s : String) : Option Int :=
  match s.toList with
  | '-' :: rest => (parseNat (String.ofList rest)).map (fun n => -(n : Int))
  | _ => (parseNat s).map (fun n => (n : Int))

def splitOn (s : String) (sep : String) : List String := s.splitOn sep

def parseList {α} (f : String → Option α) (s : String) : Option (List α) :=
  if s = "-" then some [] else (s.splitOn ",").mapM f

def asciiStr (bs : Bytes) : String := String.ofList (bs.map (fun b => Char.ofNat b.toNat))

def renderFloat : FloatVal → String
  | .zero => "fsym:zero"
  | .inf => "fsym:inf"
  | .negInf => "fsym:neginf"
  | .nan => "fsym:nan"
  | .negZero => "fsym:negzero"
  | .int v => s!"fsym:int:{v}"
  | .dec t => s!"fsym:dec:{hex t}"
  | .bin neg n e => s!"fsym:bin:{if neg then 1 else 0}:{n}:{e}"

def renderValue : Value → String
  | .bool b => s!"bool:{b}"
  | .int v => s!"int:{v}"
  | .null => "null"
  | .octets b => s!"octets:{hex b}"
  | .oid b => s!"oid:{hex b}"
  | .objdesc b => s!"objdesc:{hex b}"
  | .real f => s!"real:{renderFloat f}"
  | .ipaddr a b c d => s!"ipaddr:{a}.{b}.{c}.{d}"
  | .counter32 n => s!"counter32:{n}"
  | .gauge32 n => s!"gauge32:{n}"
  | .timeticks n => s!"timeticks:{n}"
  | .opaque b => s!"opaque:{hex b}"
  | .counter64 n => s!"counter64:{n}"
  | .uinteger32 n => s!"uinteger32:{n}"
  | .noSuchObject => "nosuchobject"
  | .noSuchInstance => "nosuchinstance"
  | .endOfMibView => "endofmibview"

def renderList {α} (f : α → String) (xs : List α) : String :=
  if xs.isEmpty then "-" else ",".intercalate (xs.map f)

def renderPdu : Pdu → String
  | .getRequest r vars => s!"get {r} {renderList hex vars}"
  | .getNextRequest r vars => s!"getnext {r} {renderList hex vars}"
  | .getBulkRequest r n m vars => s!"getbulk {r} {n} {m} {renderList hex vars}"
  | .getResponse r es ei vars =>
    s!"response {r} {es} {ei} {renderList (fun (v : VarBind) => s!"{hex v.oid}={renderValue v.value}") vars}"
  | .report b => s!"report {hex b}"

def renderOutcome {α} (f : α → String) : Outcome α → String
  | .ok a => s!"ok {f a}"
  | .err e => s!"err {e.name}"
  | .panic _ => "PANIC"

def renderUsm (u : Usm) : String :=
  s!"{hex u.engineId} {u.engineBoots} {u.engineTime} {hex u.userName} {hex u.authParams} {hex u.privacyParams}"

def renderMsgData : MsgData → String
  | .plaintext s => s!"plain {hex s.engineId} {renderPdu s.pdu}"
  | .encrypted ct => s!"enc {hex ct}"

def b01 (b : Bool) : String := if b then "1" else "0"

/-- Python `repr` of bytes -/
def pyBytesRepr (bs : Bytes) : String :=
  let hasSingle := bs.any (fun b => b.toNat = 39)
  let hasDouble := bs.any (fun b => b.toNat = 34)
  let q : Char := if hasSingle && !hasDouble then '"' else '\''
  let body := bs.flatMap (fun b =>
    let n := b.toNat
    if n = 92 then ['\\', '\\']
    else if n = q.toNat then ['\\', q]
    else if n = 9 then ['\\', 't']
    else if n = 10 then ['\\', 'n']
    else if n = 13 then ['\\', 'r']
    else if 32 ≤ n ∧ n < 127 then [Char.ofNat n]
    else ['\\', 'x', hexDigit (n / 16), hexDigit (n % 16)])
  String.ofList (['b', q] ++ body ++ [q])

def renderScalar : PyScalar → String
  | .none => "None"
  | .bool b => if b then "True" else "False"
  | .int v => s!"{v}"
  | .bytes b => pyBytesRepr b
  | .str s => s!"'{asciiStr s}'"
  | .float f => s!"<{renderFloat f}>"

def renderPyVal : PyVal → String
  | .scalar s => renderScalar s
  | .pair _ k v => s!"('{asciiStr k}', {renderScalar v})"
  | .list xs =>
    "[" ++ ", ".intercalate (xs.map (fun x => match x with
      | none => "None"
      | some (_, k, v) => s!"('{asciiStr k}', {renderScalar v})")) ++ "]"
  | .dict kvs =>
    "{" ++ ", ".intercalate (kvs.map (fun (k, v) => s!"'{asciiStr k}': {renderScalar v}")) ++ "}"

def renderPyOut : PyOut → String
  | .value v => s!"pyok {renderPyVal v}"
  | .raise e => s!"pyerr {e.name}"
  | .panic _ => "PANIC"

end GufoSnmp.Driver
