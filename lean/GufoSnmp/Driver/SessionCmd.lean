import GufoSnmp.Driver.Codec
import GufoSnmp.Model.Socket
import GufoSnmp.Model.Crypto.Md5
import GufoSnmp.Model.Crypto.Sha1
import GufoSnmp.Model.Crypto.Des
import GufoSnmp.Model.Crypto.Aes
/-! `session` request of the line protocol: a whole history of one session replayed on the model. -/
namespace GufoSnmp.Driver
open GufoSnmp Gen

def digestsX : Digests := ⟨Crypto.md5, Crypto.sha1⟩
def ciphersX : Ciphers := ⟨Crypto.desEncryptBlock, Crypto.desDecryptBlock, Crypto.aesEncryptBlock⟩

structure SessSt where
  sess : Session
  iters : List GetIter := []

def renderErr {α} (f : α → String) : Outcome α → String
  | .ok a => f a
  | .err e => s!"err {e.name}"
  | .panic _ => "PANIC"

def parseCfg (s : String) : Option (Outcome Session) :=
  match s.splitOn "," with
  | ["v1", c] => (parseHex c).map (fun c => .ok (.community ⟨snmpV1, c, 0⟩))
  | ["v2c", c] => (parseHex c).map (fun c => .ok (.community ⟨snmpV2c, c, 0⟩))
  | ["v3", eng, user, aa, ak, pa, pk, seed] => do
    let eng ← parseHex eng; let user ← parseHex user
    let aa ← parseNat aa; let ak ← parseHex ak; let pa ← parseNat pa; let pk ← parseHex pk
    let seed ← parseNat seed
    if aa ≥ 256 || pa ≥ 256 then none else
    pure ((V3Session.new digestsX eng user aa ak pa pk seed).bind (fun v => .ok (.v3 v)))
  | _ => none

def parseOp (s : String) : Option OpKind :=
  match s with
  | "get" => some .get
  | "getmany" => some .getMany
  | "getnext" => some .getNext
  | "getbulk" => some .getBulk
  | "refresh" => some .refresh
  | _ => none

def parseCall (st : SessSt) (s : String) : Option Call :=
  match s.splitOn ":" with
  | ["get", t] => (parseHex t).map .get
  | "getmany" :: ts => (ts.mapM parseHex).map .getMany
  | ["getnext", i] => (parseNat i).bind (fun i => st.iters[i]?.map .getNext)
  | ["getbulk", i] => (parseNat i).bind (fun i => st.iters[i]?.map .getBulk)
  | ["refresh"] => some .refresh
  | _ => none

def setIter (l : List GetIter) (i : Nat) (it : GetIter) : List GetIter := l.set i it

/-- one event; `none` = malformed -/
def sessEvent (st : SessSt) (ev : String) : Option (SessSt × String) :=
  match ev.splitOn "," with
  | ["iter", t, m] => do
    let t ← parseHex t; let m ← parseInt m
    match GetIter.new t m with
    | .ok it => pure ({ st with iters := st.iters ++ [it] }, "ok")
    | .error e => pure (st, s!"pyerr {e.name}")
  | ["send", call, rr, rm, bm] => do
    let c ← parseCall st call
    let rr ← parseInt rr; let rm ← parseInt rm; let bm ← parseNat bm
    let (s', out) := st.sess.send digestsX ciphersX c rr rm { cells := [], bookmark := bm }
    pure ({ st with sess := s' }, match out with
      | .ok d => s!"ok {hex d}"
      | .err e => s!"pyerr {(pyClass e).name}"
      | .panic _ => "PANIC")
  | ["recv", op, it, dgs] => do
    let op ← parseOp op
    let iti : Option Nat ← (if it = "-" then some none else (parseNat it).map some)
    -- "." = nothing arrives; otherwise datagrams joined with ":" ("-" is one EMPTY datagram)
    let dgl ← (if dgs = "." then some [] else (dgs.splitOn ":").mapM parseHex)
    let itv := iti.bind (fun i => st.iters[i]?)
    let (out, s', it', rest) := st.sess.recvLoop ciphersX op itv dgl
    let iters := match iti, it' with
      | some i, some x => setIter st.iters i x
      | _, _ => st.iters
    pure ({ sess := s', iters }, s!"{renderPyOut out}#{dgl.length - rest.length}")
  | ["setkeys", user, aa, ak, pa, pk, seed] => do
    let user ← parseHex user; let aa ← parseNat aa; let ak ← parseHex ak
    let pa ← parseNat pa; let pk ← parseHex pk; let seed ← parseNat seed
    if aa ≥ 256 || pa ≥ 256 then none else
    match st.sess with
    | .v3 v =>
      let (v', r) := v.setKeys digestsX user aa ak pa pk seed
      pure ({ st with sess := .v3 v' }, match r with
        | .ok _ => "ok"
        | .err e => s!"pyerr {(pyClass e).name}"
        | .panic _ => "PANIC")
    | _ => none
  | ["state"] =>
    match st.sess with
    | .v3 v => pure (st, s!"{hex v.engineId} {v.engineBoots} {v.engineTime} {hex v.userName}")
    | .community c => pure (st, s!"{hex c.community}")
  | _ => none

def cmdSession (cfg : String) (events : String) : String :=
  match parseCfg cfg with
  | none => "bad-op"
  | some (.err e) => s!"pyerr {(pyClass e).name}"
  | some (.panic _) => "PANIC"
  | some (.ok s0) =>
    let evs := if events = "-" then [] else events.splitOn ";"
    let rec go (st : SessSt) : List String → List String → Option (List String)
      | [], acc => some acc.reverse
      | ev :: more, acc =>
        match sessEvent st ev with
        | some (st', r) => go st' more (r :: acc)
        | none => none
    match go ⟨s0, []⟩ evs [] with
    | some rs => "ok " ++ "|".intercalate rs
    | none => "bad-op"

end GufoSnmp.Driver
