import GufoSnmp.Driver.Codec
import GufoSnmp.Model.Policer
import GufoSnmp.Driver.SessionCmd
import GufoSnmp.Model.Socket
import GufoSnmp.Model.PyClient
import GufoSnmp.Model.Timing
import GufoSnmp.Model.User
import GufoSnmp.Model.Pool
import GufoSnmp.Model.Crypto.Md5
import GufoSnmp.Model.Crypto.Sha1
import GufoSnmp.Model.Crypto.Des
import GufoSnmp.Model.Crypto.Aes
/-! `gsvmodel`: the Lean model behind the line protocol of harness/PROTOCOL.md. -/
namespace GufoSnmp.Driver
open GufoSnmp Gen

def bad : String := "bad-op"

def withHex (s : String) (k : Bytes → String) : String :=
  match parseHex s with
  | some b => k b
  | none => bad

def restHex {α} (f : α → String) : Outcome (α × Bytes) → String :=
  renderOutcome (fun (v, rest) => s!"{f v} {hex rest}")

def cmdBer (ty : String) (i : Bytes) : String :=
  match ty with
  | "int" => restHex (fun (v : Int) => s!"{v}") (fromBer intDecoder i)
  | "bool" => restHex (fun (v : Bool) => s!"{v}") (fromBer boolDecoder i)
  | "null" => restHex (fun (_ : Unit) => "null") (fromBer nullDecoder i)
  | "octets" => restHex hex (fromBer octetsDecoder i)
  | "objdesc" => restHex hex (fromBer objDescDecoder i)
  | "opaque" => restHex hex (fromBer opaqueDecoder i)
  | "oid" => restHex hex (fromBer oidDecoder i)
  | "reloid" => restHex hex (fromBer relOidDecoder i)
  | "sequence" => restHex hex (fromBer sequenceDecoder i)
  | "option" => restHex (fun (tv : Nat × Bytes) => s!"{tv.1}:{hex tv.2}") (optionFromBer i)
  | "ipaddr" => restHex (fun (v : Nat × Nat × Nat × Nat) => s!"{v.1}.{v.2.1}.{v.2.2.1}.{v.2.2.2}")
      (fromBer ipAddressDecoder i)
  | "counter32" => restHex (fun (v : Nat) => s!"{v}") (fromBer counter32Decoder i)
  | "gauge32" => restHex (fun (v : Nat) => s!"{v}") (fromBer gauge32Decoder i)
  | "timeticks" => restHex (fun (v : Nat) => s!"{v}") (fromBer timeticksDecoder i)
  | "uinteger32" => restHex (fun (v : Nat) => s!"{v}") (fromBer uinteger32Decoder i)
  | "counter64" => restHex (fun (v : Nat) => s!"{v}") (fromBer counter64Decoder i)
  | "real" => restHex renderFloat (fromBer realDecoder i)
  | _ => bad

/-- REQ = get INT OIDS | getnext INT OIDS | getbulk INT INT INT OIDS -/
def parseReq : List String → Option Pdu
  | ["get", r, oids] => do
    let r ← parseInt r; let o ← parseList parseHex oids; pure (.getRequest r o)
  | ["getnext", r, oids] => do
    let r ← parseInt r; let o ← parseList parseHex oids; pure (.getNextRequest r o)
  | ["getbulk", r, n, m, oids] => do
    let r ← parseInt r; let n ← parseInt n; let m ← parseInt m
    let o ← parseList parseHex oids; pure (.getBulkRequest r n m o)
  | _ => none

def inI64 (v : Int) : Bool := -(2 ^ 63) ≤ v && v < 2 ^ 63

def reqInRange : Pdu → Bool
  | .getRequest r _ => inI64 r
  | .getNextRequest r _ => inI64 r
  | .getBulkRequest r n m _ => inI64 r && inI64 n && inI64 m
  | _ => false

def bufData (o : Outcome Buf) : Outcome Bytes := o >>= Buf.data

def parseBool01 (s : String) : Option Bool :=
  if s = "1" then some true else if s = "0" then some false else none

def cmdEncMsgV3 (args : List String) : String :=
  match args with
  | msgId :: fa :: fp :: fr :: eng :: boots :: time :: user :: ap :: pp :: rest =>
    let hdr : Option (Int × Bool × Bool × Bool × Usm) := do
      let msgId ← parseInt msgId
      let fa ← parseBool01 fa; let fp ← parseBool01 fp; let fr ← parseBool01 fr
      let eng ← parseHex eng; let boots ← parseInt boots; let time ← parseInt time
      let user ← parseHex user; let ap ← parseHex ap; let pp ← parseHex pp
      if inI64 msgId && inI64 boots && inI64 time then
        pure (msgId, fa, fp, fr, ⟨eng, boots, time, user, ap, pp⟩)
      else none
    let data : Option MsgData :=
      match rest with
      | ["enc", ct] => (parseHex ct).map .encrypted
      | "plain" :: ctx :: req => do
        let ctx ← parseHex ctx
        let pdu ← parseReq req
        if reqInRange pdu then pure (.plaintext ⟨ctx, pdu⟩) else none
      | _ => none
    match hdr, data with
    | some (msgId, fa, fp, fr, usm), some data =>
      let r := pushV3 Buf.empty ⟨msgId, fa, fp, fr, usm, data⟩
      match r with
      | .ok b =>
        if usm.authParams.isEmpty then renderOutcome (fun d => s!"-1 {hex d}") b.data
        else match b.getBookmark with
          | .ok bm => renderOutcome (fun d => s!"{bm} {hex d}") b.data
          | .err e => s!"err {e.name}"
          | .panic _ => "PANIC"
      | .err e => s!"err {e.name}"
      | .panic _ => "PANIC"
    | _, _ => bad
  | _ => bad

/-- one `buf` op: returns new buffer and the rendered result -/
def bufOp (b : Buf) (op : String) : Option (Buf × String) :=
  let fin (b' : Buf) (r : String) : Option (Buf × String) := some (b', s!"{r}@{b'.len}/{b'.pos}")
  let res (o : Outcome Buf) : Option (Buf × String) :=
    match o with
    | .ok b' => fin b' "-"
    | .err _ => fin b "E"
    | .panic _ => none
  match op.splitOn ":" with
  | ["push", h] => (parseHex h).bind (fun d => res (b.push d))
  | ["u8", n] => (parseNat n).bind (fun n => if n < 256 then res (b.pushU8 (UInt8.ofNat n)) else none)
  | ["taglen", t, v] => do
    let t ← parseNat t; let v ← parseNat v
    if t < 256 && v < 2 ^ 64 then res (b.pushTagLen (UInt8.ofNat t) v) else none
  | ["tagged", t, h] => do
    let t ← parseNat t; let d ← parseHex h
    if t < 256 then
      match b.push d with
      | .ok b1 => match b1.pushTagLen (UInt8.ofNat t) d.length with
        | .ok b2 => fin b2 "-"
        | _ => fin b1 "E"
      | _ => fin b "E"
    else none
  | ["skipfill", h] => (parseHex h).bind (fun d =>
      fin ((b.skip d.length).overwrite d) "-")
  | ["skip", n] => (parseNat n).bind (fun n => fin (b.skip n) "-")
  | ["reset"] => fin b.reset "-"
  | ["bm", n] => (parseNat n).bind (fun n =>
      match b.setBookmark n with
      | .ok b' => fin b' "-"
      | _ => none)
  | ["getbm"] =>
    match b.getBookmark with
    | .ok n => fin b s!"{n}"
    | _ => fin b "P"
  | ["data"] =>
    match b.data with
    | .ok d => fin b (hex d)
    | _ => fin b "UNINIT"
  | _ => none

/-- `none` = a panic in some op (whole line PANIC); `some none` = bad-op -/
def cmdBuf (ops : String) : String :=
  if ops = "-" then "ok -" else
  let rec go (b : Buf) : List String → List String → Option (List String)
    | [], acc => some acc.reverse
    | op :: more, acc =>
      match bufOp b op with
      | some (b', r) => go b' more (r :: acc)
      | none => none
  let opsL := ops.splitOn ";"
  -- distinguish bad-op from panic: a bookmark overflow is the only panic
  let isBmPanic := opsL.any (fun op => match op.splitOn ":" with
    | ["bm", n] => match parseNat n with
      | some n => n ≥ 2 ^ 63
      | none => false
    | _ => false)
  match go Buf.empty opsL [] with
  | some rs => "ok " ++ ";".intercalate rs
  | none => if isBmPanic then "PANIC" else bad

/-- `pool a;w0:hex;d0;...` -/
def cmdPool (ops : String) : String :=
  let parse (op : String) : Option PoolOp :=
    if op = "a" then some .acquire
    else if op.startsWith "d" then (parseNat (op.drop 1).toString).map PoolOp.drop
    else if op.startsWith "w" then
      match (op.drop 1).toString.splitOn ":" with
      | [k, h] => match parseNat k, parseHex h with
        | some k, some h => some (.write k h)
        | _, _ => none
      | _ => none
    else none
  let rec all : List String → Option (List PoolOp)
    | [] => some []
    | o :: more => match parse o, all more with
      | some x, some xs => some (x :: xs)
      | _, _ => none
  match all (ops.splitOn ";") with
  | none => bad
  | some l =>
    match ({} : PoolState).run l with
    | some rs => "ok " ++ ";".intercalate rs
    | none => bad

def cmdTopy (op : String) (i : Bytes) : String :=
  match pduTryFrom i with
  | .ok pdu =>
    match op with
    | "get" => renderPyOut (opGetToPython pdu)
    | "getmany" => renderPyOut (opGetManyToPython pdu)
    | "refresh" => renderPyOut (opRefreshToPython pdu)
    | _ => bad
  | .err e => s!"err {e.name}"
  | .panic _ => "PANIC"

def cmdWalk (op : String) (oidText : Bytes) (maxRep : Int) (pdus : List Bytes) : String :=
  if op ≠ "getnext" && op ≠ "getbulk" then bad else
  match GetIter.new oidText maxRep with
  | .error e => s!"pyerr {e.name}"
  | .ok it0 =>
    let step (st : Option GetIter × List String × Bool) (p : Bytes) : Option GetIter × List String × Bool :=
      let (it, acc, panicked) := st
      match pduTryFrom p with
      | .ok pdu =>
        let (out, it') := if op = "getnext" then opGetNextToPython pdu it else opGetBulkToPython pdu it
        let nx := match it' with
          | some i => hex i.nextOid
          | none => "-"
        (it', s!"{renderPyOut out}@{nx}" :: acc, panicked || out.isPanic)
      | .err e =>
        let nx := match it with
          | some i => hex i.nextOid
          | none => "-"
        (it, s!"err {e.name}@{nx}" :: acc, panicked)
      | .panic _ => (it, acc, true)
    let (_, acc, panicked) := pdus.foldl step (some it0, [], false)
    if panicked then "PANIC"
    else if acc.isEmpty then "ok -" else "ok " ++ ";".intercalate acc.reverse

def cmdPolicer (delta : Int) (tss : List Int) : String :=
  let step (st : Policer.St × List String) (ts : Int) : Policer.St × List String :=
    let (s', t) := Policer.getTimeout st.1 ts
    (s', (match t with | some d => s!"{d}" | none => "n") :: st.2)
  let (_, acc) := tss.foldl step (⟨none, delta⟩, [])
  if acc.isEmpty then "ok -" else "ok " ++ ",".intercalate acc.reverse

/-- executable instances of the abstract primitives -/
def digests : Digests := ⟨Crypto.md5, Crypto.sha1⟩
def ciphers : Ciphers := ⟨Crypto.desEncryptBlock, Crypto.desDecryptBlock, Crypto.aesEncryptBlock⟩

def parseAlgName (s : String) : Option AuthAlg :=
  if s = "md5" then some .md5 else if s = "sha1" then some .sha1 else none

def exceptOut (r : Except PyExc Bytes) : String :=
  match r with
  | .ok b => s!"pyok {hex b}"
  | .error e => s!"pyerr {e.name}"

def cmdPrivEnc (alg : Nat) (key : Bytes) (boots time count : Nat) (eng : Bytes) (pdu : Pdu) (seed : Nat) : String :=
  match PrivKey.new alg with
  | .err e => s!"err {e.name}"
  | .panic _ => "PANIC"
  | .ok k0 =>
    match k0.asLocalized key seed with
    | .err e => s!"err {e.name}"
    | .panic _ => "PANIC"
    | .ok k1 =>
      let rec go (k : PrivKey) (n : Nat) (acc : List String) : String :=
        match n with
        | 0 => if acc.isEmpty then "ok -" else "ok " ++ ";".intercalate acc.reverse
        | n + 1 =>
          match k.encrypt ciphers ⟨eng, pdu⟩ boots time with
          | (k', .ok (ct, salt)) => go k' n (s!"{hex ct}/{hex salt}" :: acc)
          | (_, .err e) => s!"err {e.name}"
          | (_, .panic _) => "PANIC"
      go k1 count []

def handle (line : String) : String :=
  let line := if line.endsWith "\r" then (line.dropEnd 1).toString else line
  if line.trimAscii.toString.isEmpty || line.startsWith "#" then "#" else
  match line.splitOn " " with
  | ["hdr", h] => withHex h (fun i =>
      renderOutcome (fun (hd, tail) =>
        s!"{hd.cls} {b01 hd.constructed} {hd.tag} {hd.length} {hex tail}") (parseHeader i))
  | ["ber", ty, h] => withHex h (cmdBer ty)
  | ["value", h] => withHex h (fun i => restHex renderValue (valueFromBer i))
  | ["normalize", r, o] => withHex r (fun r => withHex o (fun o =>
      if r.length ≥ 128 then bad else renderOutcome hex (tryNormalize r o)))
  | ["pdu", h] => withHex h (fun i => renderOutcome renderPdu (pduTryFrom i))
  | ["msg", "v1", h] => withHex h (fun i =>
      renderOutcome (fun m => s!"{hex m.community} {renderPdu m.pdu}") (v1TryFrom i))
  | ["msg", "v2c", h] => withHex h (fun i =>
      renderOutcome (fun m => s!"{hex m.community} {renderPdu m.pdu}") (v2cTryFrom i))
  | ["msg", "v3", h] => withHex h (fun i =>
      renderOutcome (fun (m : V3Msg) =>
        s!"{m.msgId} {b01 m.flagAuth} {b01 m.flagPriv} {b01 m.flagReport} {renderUsm m.usm} {renderMsgData m.data}")
        (v3TryFrom i))
  | ["usm", h] => withHex h (fun i => renderOutcome renderUsm (usmTryFrom i))
  | ["scoped", h] => withHex h (fun i =>
      renderOutcome (fun s => s!"{hex s.engineId} {renderPdu s.pdu}") (scopedTryFrom i))
  | ["msgdata", h] => withHex h (fun i => renderOutcome renderMsgData (msgDataTryFrom i))
  | ["encint", v] =>
    match parseInt v with
    | some v => if inI64 v then renderOutcome hex (bufData (pushInt Buf.empty v)) else bad
    | none => bad
  | ["encoid", h] => withHex h (fun o => renderOutcome hex (bufData (pushOid Buf.empty o)))
  | ["encnull"] => renderOutcome hex (bufData (pushNull Buf.empty))
  | "encpdu" :: req =>
    match parseReq req with
    | some pdu => if reqInRange pdu then renderOutcome hex (bufData (pushPdu Buf.empty pdu)) else bad
    | none => bad
  | "encmsg" :: "v1" :: c :: req =>
    match parseHex c, parseReq req with
    | some c, some pdu =>
      if reqInRange pdu then renderOutcome hex (bufData (pushCommunityMsg snmpV1 Buf.empty ⟨c, pdu⟩)) else bad
    | _, _ => bad
  | "encmsg" :: "v2c" :: c :: req =>
    match parseHex c, parseReq req with
    | some c, some pdu =>
      if reqInRange pdu then renderOutcome hex (bufData (pushCommunityMsg snmpV2c Buf.empty ⟨c, pdu⟩)) else bad
    | _, _ => bad
  | "encmsg" :: "v3" :: args => cmdEncMsgV3 args
  | "encscoped" :: e :: req =>
    match parseHex e, parseReq req with
    | some e, some pdu =>
      if reqInRange pdu then renderOutcome hex (bufData (pushScoped Buf.empty ⟨e, pdu⟩)) else bad
    | _, _ => bad
  | ["oidstr", h] => withHex h (fun t => renderOutcome hex (oidFromStr t))
  | ["oidtxt", h] => withHex h (fun o => renderOutcome asciiStr (oidToStr o))
  | ["startswith", a, b] => withHex a (fun a => withHex b (fun b => s!"ok {oidStartsWith a b}"))
  | ["cmparcs", a, b] => withHex a (fun a => withHex b (fun b =>
      s!"ok {match cmpArcs a b with | .lt => "lt" | .eq => "eq" | .gt => "gt"}"))
  | ["buf", ops] => cmdBuf ops
  | ["pool", ops] => cmdPool ops
  | ["session", cfg, evs] => cmdSession cfg evs
  | ["p2m", a, pw] =>
    match parseAlgName a, parseHex pw with
    | some a, some pw => renderOutcome hex (passwordToMaster digests a pw a.keySize)
    | _, _ => bad
  | ["localize", a, k, e] =>
    match parseAlgName a, parseHex k, parseHex e with
    | some a, some k, some e => renderOutcome hex (localize digests a k e a.keySize)
    | _, _, _ => bad
  | ["keytype", c, k, e] =>
    match parseNat c, parseHex k, parseHex e with
    | some c, some k, some e =>
      if c ≥ 256 then bad else
      renderOutcome (fun (ak : AuthKey) => hex ak.getKey) (AuthKey.new c >>= fun ak => asKeyType digests ak c k e)
    | _, _, _ => bad
  | ["sign", a, k, off, d] =>
    match parseAlgName a, parseHex k, parseNat off, parseHex d with
    | some a, some k, some off, some d =>
      renderOutcome hex (asLocalized a k >>= fun ak => sign digests ak d off)
    | _, _, _, _ => bad
  | ["getkey", c, pw] =>
    match parseNat c, parseHex pw with
    | some c, some pw => if c ≥ 256 then bad else exceptOut (getMasterKey digests c pw)
    | _, _ => bad
  | ["getlkey", c, k, e] =>
    match parseNat c, parseHex k, parseHex e with
    | some c, some k, some e => if c ≥ 256 then bad else exceptOut (getLocalizedKey digests c k e)
    | _, _, _ => bad
  | "privenc" :: alg :: key :: boots :: time :: count :: eng :: seedAndReq =>
    -- the model needs the salt seed (random in the implementation): `seed=N` precedes REQ
    match seedAndReq with
    | seed :: req =>
      match parseNat alg, parseHex key, parseNat boots, parseNat time, parseNat count, parseHex eng,
            parseNat ((seed.drop 5).toString), parseReq req with
      | some alg, some key, some boots, some time, some count, some eng, some sd, some pdu =>
        if seed.startsWith "seed=" && reqInRange pdu && alg < 256 && boots < 2 ^ 32 && time < 2 ^ 32 then
          cmdPrivEnc alg key boots time count eng pdu sd
        else bad
      | _, _, _, _, _, _, _, _ => bad
    | _ => bad
  | ["privdec", alg, key, boots, time, pp, data] =>
    match parseNat alg, parseHex key, parseNat boots, parseNat time, parseHex pp, parseHex data with
    | some alg, some key, some boots, some time, some pp, some data =>
      if alg ≥ 256 || boots ≥ 2 ^ 32 || time ≥ 2 ^ 32 then bad else
      renderOutcome (fun (r : ScopedPdu × PrivKey) => s!"{hex r.1.engineId} {renderPdu r.1.pdu}")
        (PrivKey.new alg >>= fun k0 => k0.asLocalized key 0 >>= fun k1 =>
          k1.decrypt ciphers data ⟨[], boots, time, [], [], pp⟩)
    | _, _, _, _, _, _ => bad
  | ["userkeys", name, aalg, akt, akey, palg, pkt, pkey] =>
    let kt (x : String) : Option Py.KeyType :=
      match x with | "0" => some .password | "1" => some .master | "2" => some .localized | _ => none
    match parseHex name, kt akt, parseHex akey, kt pkt, parseHex pkey with
    | some name, some akt, some akey, some pkt, some pkey =>
      let auth : Option Py.Key := if aalg = "-" then none else (aalg.toNat?.map (fun a => Py.mkAuthKey a akey akt))
      let priv : Option Py.Key := if palg = "-" then none else (palg.toNat?.map (fun a => Py.mkPrivKey a pkey pkt))
      (match Py.mkUser name auth priv with
       | none => "pyerr ValueError"
       | some u => s!"ok {u.authAlg} {hex u.authKey} {u.privAlg} {hex u.privKey}")
    | _, _, _, _, _ => bad
  | ["bulkiter", ncalls, script] =>
    -- the GetBulkIter wrapper: `script` = outcomes of the socket calls separated by `;`:
    -- `L:1.2.N.3` (a list: items are numbers, `N` the stop marker; `L:-` the empty list), `E:<class>`
    let parseItem (x : String) : Option (Option Py.Item) :=
      if x = "N" then some none else x.toNat?.map (fun n => some ([], [], PyScalar.int n))
    let parseOut (x : String) : Option PyOut :=
      match x.splitOn ":" with
      | ["L", "-"] => some (.value (.list []))
      | ["L", items] =>
        let rec all : List String → Option (List (Option Py.Item))
          | [] => some []
          | i :: more => match parseItem i, all more with
            | some a, some b => some (a :: b)
            | _, _ => none
        (all (items.splitOn ".")).map (fun l => .value (.list l))
      | ["E", "BlockingIOError"] => some (.raise .BlockingIOError)
      | ["E", "StopAsyncIteration"] => some (.raise .StopAsyncIteration)
      | ["E", "SnmpDecodeError"] => some (.raise .SnmpDecodeError)
      | ["E", "SnmpAuthError"] => some (.raise .SnmpAuthError)
      | ["E", "TimeoutError"] => some (.raise .TimeoutError)
      | _ => none
    let rec allOut : List String → Option (List PyOut)
      | [] => some []
      | o :: more => match parseOut o, allOut more with
        | some a, some b => some (a :: b)
        | _, _ => none
    match ncalls.toNat?, (if script = "-" then some [] else allOut (script.splitOn ";")) with
    | some n, some os =>
      let showOut : Py.IterOut → String
        | .item (_, _, .int v) => s!"i{v}"
        | .item _ => "i?"
        | .stop => "S"
        | .raise e => s!"X:{e.name}"
        | .panic => "PANIC"
      "ok " ++ ",".intercalate ((Py.bulkRun n {} os).map showOut)
    | _, _ => bad
  | ["nextiter", mode, outcomes] =>
    -- the GetNextIter wrappers: each socket outcome (`V:n` | `E:<class>`) as the iterator hands it on
    let parseOut (x : String) : Option PyOut :=
      match x.splitOn ":" with
      | ["V", n] => n.toInt?.map (fun v => .value (.scalar (.int v)))
      | ["E", "BlockingIOError"] => some (.raise .BlockingIOError)
      | ["E", "StopAsyncIteration"] => some (.raise .StopAsyncIteration)
      | ["E", "SnmpDecodeError"] => some (.raise .SnmpDecodeError)
      | ["E", "SnmpAuthError"] => some (.raise .SnmpAuthError)
      | ["E", "TimeoutError"] => some (.raise .TimeoutError)
      | ["E", "ValueError"] => some (.raise .ValueError)
      | _ => none
    match parseList parseOut outcomes with
    | some os =>
      if mode = "sync" then ";".intercalate (os.map (fun o => renderPyOut (Py.syncNextMap o)))
      else if mode = "async" then ";".intercalate (os.map (fun o => renderPyOut (Py.asyncNextMap o)))
      else bad
    | none => bad
  | ["asyncrecv", outcomes] =>
    let parseOut (x : String) : Option PyOut :=
      match x.splitOn ":" with
      | ["B"] => some (.raise .BlockingIOError)
      | ["V", n] => n.toInt?.map (fun v => .value (.scalar (.int v)))
      | ["E", "SnmpDecodeError"] => some (.raise .SnmpDecodeError)
      | ["E", "SnmpAuthError"] => some (.raise .SnmpAuthError)
      | ["E", "NoSuchInstance"] => some (.raise .NoSuchInstance)
      | ["E", "ValueError"] => some (.raise .ValueError)
      | ["E", "TimeoutError"] => some (.raise .TimeoutError)
      | _ => none
    match parseList parseOut outcomes with
    | some os => renderPyOut (Py.asyncRecv os)
    | none => bad
  | ["refresh", given, reqAuth, ncalls, outcomes] =>
    match parseBool01 given, parseBool01 reqAuth, ncalls.toNat?, parseList parseBool01 outcomes with
    | some g, some ra, some n, some oc =>
      let r := Py.refreshes n (Py.RefreshState.init g ra) oc
      let showAct : Py.Act → String
        | .probe true => "P1"
        | .probe false => "P0"
        | .setKeys => "K"
      let calls := r.1.map (fun c => ",".intercalate (c.1.map showAct) ++ (if c.2 then "!" else ""))
      s!"ok {";".intercalate calls}|{if r.2.deferred then 1 else 0}{if r.2.toRefresh then 1 else 0}"
    | _, _, _, _ => bad
  | ["recvsched", mode, t, d, arrivals] =>
    let parseArr (x : String) : Option Timing.Arrival :=
      match x.splitOn ":" with
      | [a, "r"] => a.toNat?.map (⟨·, .reply⟩)
      | [a, "s"] => a.toNat?.map (⟨·, .stray⟩)
      | [a, "g"] => a.toNat?.map (⟨·, .garbage⟩)
      | _ => none
    let showEnd : Timing.End → String
      | .delivered x => s!"ok delivered {x}"
      | .timeout x => s!"ok timeout {x}"
      | .decodeError x => s!"ok decodeerror {x}"
    match t.toNat?, d.toNat?, parseList parseArr arrivals with
    | some t, some d, some arr =>
      (match mode with
       | "sync" => showEnd (Timing.syncRecv t d 0 0 arr)
       | "old" => showEnd (Timing.syncRecvOld t d 0 arr)
       | "async" => showEnd (Timing.asyncRecv t d 0 0 arr)
       | _ => bad)
    | _, _, _ => bad
  | ["policer", d, tss] =>
    match parseInt d, parseList parseInt tss with
    | some d, some tss => cmdPolicer d tss
    | _, _ => bad
  | ["policerctor", pos, q] =>
    match parseBool01 pos, parseInt q with
    | some pos, some q =>
      (match Policer.ctor pos q with
       | some s => s!"ok {s.delta}"
       | none => "pyerr ValueError")
    | _, _ => bad
  | ["topy", op, h] => withHex h (cmdTopy op)
  | ["walk", op, t, m, ps] =>
    match parseHex t, parseInt m, parseList parseHex ps with
    | some t, some m, some ps => if inI64 m then cmdWalk op t m ps else bad
    | _, _, _ => bad
  | _ => bad

partial def loop (inp : IO.FS.Stream) (out : IO.FS.Stream) : IO Unit := do
  let line ← inp.getLine
  if line.isEmpty then return ()
  let l := if line.endsWith "\n" then (line.dropEnd 1).toString else line
  out.putStrLn (handle l)
  loop inp out

end GufoSnmp.Driver

def main : IO Unit := do
  let out ← IO.getStdout
  GufoSnmp.Driver.loop (← IO.getStdin) out
  out.flush
