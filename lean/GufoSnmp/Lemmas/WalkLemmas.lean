import GufoSnmp.Model.Walk
import GufoSnmp.Lemmas.TotalOp
/-!
# Walk lemmas: what the iterators accept, for an arbitrary agent
-/
namespace GufoSnmp.Walk
open GufoSnmp Gen Py

/-- each element is greater (in `cmp_arcs` order) than the one before it, starting above `prev` -/
def Chain : Bytes → List Bytes → Prop
  | _, [] => True
  | prev, y :: ys => cmpArcs y prev = .gt ∧ Chain y ys

/-- the last element of `prev :: ys` -/
def lastOf : Bytes → List Bytes → Bytes
  | prev, [] => prev
  | _, y :: ys => lastOf y ys

theorem chain_append : ∀ (prev : Bytes) (xs ys : List Bytes),
    Chain prev xs → Chain (lastOf prev xs) ys → Chain prev (xs ++ ys)
  | _, [], _, _, h => h
  | _, x :: xs, ys, ⟨h1, h2⟩, h => ⟨h1, chain_append x xs ys h2 h⟩

theorem lastOf_append : ∀ (prev : Bytes) (xs ys : List Bytes),
    lastOf prev (xs ++ ys) = lastOf (lastOf prev xs) ys
  | _, [], _ => rfl
  | _, x :: xs, ys => lastOf_append x xs ys

theorem setNextOid_true {it it' : GetIter} {oid : Bytes} (h : it.setNextOid oid = (it', true)) :
    oidStartsWith it.startOid oid = true ∧ cmpArcs oid it.nextOid = .gt ∧
    it'.startOid = it.startOid ∧ it'.nextOid = oid := by
  unfold GetIter.setNextOid at h
  split at h
  · rename_i hc
    cases h
    simp only [Bool.and_eq_true, beq_iff_eq] at hc
    exact ⟨hc.1, hc.2, rfl, rfl⟩
  · cases h

theorem setNextOid_false {it it' : GetIter} {oid : Bytes} (h : it.setNextOid oid = (it', false)) :
    it' = it := by
  unfold GetIter.setNextOid at h
  split at h
  · cases h
  · cases h; rfl

theorem liftErr_value {α} {x : Outcome α} {k : α → PyOut} {w : PyVal} (h : liftErr x k = .value w) :
    ∃ a, x = .ok a ∧ k a = .value w := by
  unfold liftErr at h
  cases x with
  | ok a => exact ⟨a, rfl, h⟩
  | err e => cases h
  | panic s => cases h

/-- what an accepted GetNext reply looks like -/
theorem getNext_accept {p : Pdu} {it it' : GetIter} {raw k : Bytes} {v : PyScalar}
    (h : opGetNextToPython p (some it) = (.value (.pair raw k v), some it')) :
    ∃ r es ei var, p = .getResponse r es ei [var] ∧ raw = var.oid ∧ var.value.isData = true ∧
      it.setNextOid var.oid = (it', true) := by
  unfold opGetNextToPython at h
  simp only at h
  split at h
  · rename_i r es ei vars
    split at h
    · cases h
    · rename_i var
      cases hs : it.setNextOid var.oid with
      | mk it1 ok =>
        rw [hs] at h
        simp only at h
        cases ok with
        | false => simp at h; cases h.1
        | true =>
          simp only [Bool.not_true, Bool.false_eq_true, if_false] at h
          split at h
          · cases h
          · rename_i hd
            have hdata : var.value.isData = true := by simpa using hd
            simp only [Prod.mk.injEq, Option.some.injEq] at h
            obtain ⟨h1, h2⟩ := h
            subst h2
            refine ⟨r, es, ei, var, rfl, ?_, hdata, hs⟩
            obtain ⟨k', _, h1⟩ := liftErr_value h1
            obtain ⟨v', _, h1⟩ := liftErr_value h1
            cases h1; rfl
    · cases h
  · cases h
  · cases h

/-- **walkNext**: containment, strict increase, follow-up requests -/
theorem walkNext_spec : ∀ (ps : List Pdu) (it : GetIter),
    (∀ y ∈ (walkNext it ps).yields, oidStartsWith it.startOid y.1 = true) ∧
    Chain it.nextOid ((walkNext it ps).yields.map (·.1)) ∧
    (walkNext it ps).requests = it.nextOid :: (walkNext it ps).yields.map (·.1)
  | [], it => ⟨by intro y hy; simp [walkNext] at hy, trivial, rfl⟩
  | p :: ps, it => by
    unfold walkNext
    split
    · rename_i raw k v it' heq
      obtain ⟨r, es, ei, var, hp, hraw, hdata, hset⟩ := getNext_accept heq
      obtain ⟨hst, hgt, hstart, hnext⟩ := setNextOid_true hset
      obtain ⟨ih1, ih2, ih3⟩ := walkNext_spec ps it'
      simp only
      refine ⟨?_, ?_, ?_⟩
      · intro y hy
        simp only [List.mem_cons] at hy
        rcases hy with rfl | hy
        · rw [hraw]; exact hst
        · rw [← hstart]; exact ih1 y hy
      · simp only [List.map_cons]
        rw [hnext, ← hraw] at ih2
        exact ⟨by rw [hraw]; exact hgt, ih2⟩
      · simp only [List.map_cons]
        rw [ih3, hnext, hraw]
    all_goals exact ⟨by intro y hy; simp at hy, trivial, rfl⟩

end GufoSnmp.Walk

namespace GufoSnmp.Walk
open GufoSnmp Gen Py

theorem drain_some (x : Item) (rest : List (Option Item)) :
    drain (some x :: rest) = (x :: (drain rest).1, (drain rest).2) := rfl

/-- what the GetBulk conversion loop appends to its result list -/
theorem getBulkLoop_spec : ∀ (vars : List VarBind) (it : GetIter) (acc xs : List (Option Item)) (it' : GetIter),
    getBulkLoop vars it acc = (.ok xs, it') →
    ∃ new, xs = acc ++ new ∧ it'.startOid = it.startOid ∧
      (∀ y ∈ (drain new).1, oidStartsWith it.startOid y.1 = true) ∧
      Chain it.nextOid ((drain new).1.map (·.1)) ∧
      it'.nextOid = lastOf it.nextOid ((drain new).1.map (·.1)) ∧
      (∀ y ∈ (drain new).1, ∃ var ∈ vars, var.oid = y.1 ∧ var.value.isData = true)
  | [], it, acc, xs, it', h => by
    simp only [getBulkLoop, Prod.mk.injEq, Except.ok.injEq] at h
    obtain ⟨rfl, rfl⟩ := h
    exact ⟨[], by simp, rfl, by intro y hy; simp [drain] at hy, trivial, rfl, by intro y hy; simp [drain] at hy⟩
  | var :: more, it, acc, xs, it', h => by
    unfold getBulkLoop at h
    split at h
    · obtain ⟨new, h1, h2, h3, h4, h5, h6⟩ := getBulkLoop_spec more it acc xs it' h
      exact ⟨new, h1, h2, h3, h4, h5, fun y hy => by
        obtain ⟨v, hv, hh⟩ := h6 y hy; exact ⟨v, by simp [hv], hh⟩⟩
    · rename_i hd
      have hdata : var.value.isData = true := by simpa using hd
      cases hs : it.setNextOid var.oid with
      | mk it1 ok =>
        rw [hs] at h
        simp only at h
        cases ok with
        | false =>
          simp only [Bool.not_false, if_true, Prod.mk.injEq, Except.ok.injEq] at h
          obtain ⟨rfl, rfl⟩ := h
          have := setNextOid_false hs
          subst this
          exact ⟨[none], rfl, rfl, by intro y hy; simp [drain] at hy, trivial, rfl,
            by intro y hy; simp [drain] at hy⟩
        | true =>
          obtain ⟨hst, hgt, hstart, hnext⟩ := setNextOid_true hs
          simp only [Bool.not_true, Bool.false_eq_true, if_false] at h
          split at h
          · rename_i k hk
            split at h
            · rename_i v hv
              obtain ⟨new, h1, h2, h3, h4, h5, h6⟩ := getBulkLoop_spec more it1 _ xs it' h
              refine ⟨some (var.oid, k, v) :: new, by rw [h1]; simp, by rw [h2, hstart], ?_, ?_, ?_, ?_⟩
              · intro y hy
                rw [drain_some] at hy
                simp only [List.mem_cons] at hy
                rcases hy with rfl | hy
                · exact hst
                · rw [← hstart]; exact h3 y hy
              · rw [drain_some]
                simp only [List.map_cons]
                rw [hnext] at h4
                exact ⟨hgt, h4⟩
              · rw [drain_some]
                simp only [List.map_cons, lastOf]
                rw [h5, hnext]
              · intro y hy
                rw [drain_some] at hy
                simp only [List.mem_cons] at hy
                rcases hy with rfl | hy
                · exact ⟨var, by simp, rfl, hdata⟩
                · obtain ⟨v', hv', hh⟩ := h6 y hy; exact ⟨v', by simp [hv'], hh⟩
            · cases h
            · cases h
          · cases h
          · cases h

/-- what an accepted GetBulk reply looks like -/
theorem getBulk_accept {p : Pdu} {it it' : GetIter} {xs : List (Option Item)}
    (h : opGetBulkToPython p (some it) = (.value (.list xs), some it')) :
    ∃ r es ei vars, p = .getResponse r es ei vars ∧ (getBulkLoop vars it []) = (.ok xs, it') := by
  unfold opGetBulkToPython at h
  simp only at h
  split at h
  · rename_i r es ei vars
    split at h
    · cases h
    · cases hl : getBulkLoop vars it [] with
      | mk res it1 =>
        rw [hl] at h
        cases res with
        | ok ys =>
          simp only at h
          split at h
          · cases h
          · simp only [Prod.mk.injEq, PyOut.value.injEq, PyVal.list.injEq, Option.some.injEq] at h
            obtain ⟨rfl, rfl⟩ := h
            exact ⟨r, es, ei, vars, rfl, hl⟩
        | error out =>
          simp only [Prod.mk.injEq] at h
          -- the loop failed: the outcome is a raise or a panic, never a list
          obtain ⟨h1, _⟩ := h
          cases out with
          | value v =>
            -- getBulkLoop never returns `.error (.value _)`
            exfalso
            have : ∀ (vs : List VarBind) (i : GetIter) (a : List (Option Item)) (o : PyOut),
                (getBulkLoop vs i a).1 = .error o → ∀ w, o ≠ .value w := by
              intro vs
              induction vs with
              | nil => intro i a o ho; simp [getBulkLoop] at ho
              | cons x xs' ih =>
                intro i a o ho w
                unfold getBulkLoop at ho
                split at ho
                · exact ih i a o ho w
                · simp only at ho
                  split at ho
                  · cases ho
                  · split at ho
                    · split at ho
                      · exact ih _ _ o ho w
                      · cases ho; intro hh; cases hh
                      · cases ho; intro hh; cases hh
                    · cases ho; intro hh; cases hh
                    · cases ho; intro hh; cases hh
            exact this vars it [] (.value v) (by rw [hl]) v rfl
          | raise e => cases h1
          | panic w => cases h1
  · cases h
  · cases h

/-- **walkBulk**: containment, strict increase, every yield is a received data varbind -/
theorem walkBulk_spec : ∀ (ps : List Pdu) (it : GetIter),
    (∀ y ∈ (walkBulk it ps).yields, oidStartsWith it.startOid y.1 = true) ∧
    Chain it.nextOid ((walkBulk it ps).yields.map (·.1))
  | [], it => ⟨by intro y hy; simp [walkBulk] at hy, trivial⟩
  | p :: ps, it => by
    unfold walkBulk
    split
    · rename_i xs it' heq
      obtain ⟨r, es, ei, vars, hp, hloop⟩ := getBulk_accept heq
      obtain ⟨new, h1, h2, h3, h4, h5, _⟩ := getBulkLoop_spec vars it [] xs it' hloop
      simp only [List.nil_append] at h1
      subst h1
      cases hd : drain xs with
      | mk items stopped =>
        rw [hd] at h3 h4 h5
        simp only at h3 h4 h5 ⊢
        cases stopped with
        | true => simp only [if_true]; exact ⟨h3, h4⟩
        | false =>
          simp only [Bool.false_eq_true, if_false]
          obtain ⟨ih1, ih2⟩ := walkBulk_spec ps it'
          refine ⟨?_, ?_⟩
          · intro y hy
            simp only [List.mem_append] at hy
            rcases hy with hy | hy
            · exact h3 y hy
            · rw [← h2]; exact ih1 y hy
          · rw [List.map_append]
            apply chain_append _ _ _ h4
            rw [← h5]; exact ih2
    all_goals exact ⟨by intro y hy; simp at hy, trivial⟩

/-- one accepted, non-final GetBulk batch: the follow-up request names the last accepted OID -/
theorem walkBulk_follow {p : Pdu} {ps : List Pdu} {it it' : GetIter} {xs : List (Option Item)}
    (h : opGetBulkToPython p (some it) = (.value (.list xs), some it')) (hns : (drain xs).2 = false) :
    (walkBulk it (p :: ps)).requests = it.nextOid :: (walkBulk it' ps).requests ∧
    it'.nextOid = lastOf it.nextOid ((drain xs).1.map (·.1)) := by
  obtain ⟨r, es, ei, vars, hp, hloop⟩ := getBulk_accept h
  obtain ⟨new, h1, _, _, _, h5, _⟩ := getBulkLoop_spec vars it [] xs it' hloop
  simp only [List.nil_append] at h1
  subst h1
  refine ⟨?_, h5⟩
  rw [walkBulk, h]
  simp only
  cases hd : drain xs with
  | mk items stopped =>
    rw [hd] at hns
    simp only at hns
    subst hns
    simp

end GufoSnmp.Walk
