import GufoSnmp.Lemmas.EncSpecV3
import GufoSnmp.Lemmas.PrivLemmas
import GufoSnmp.Spec.Modes
/-!
# Privacy: what `encrypt` puts under the cipher; the block modes invert
-/
namespace GufoSnmp
open Gen Outcome

/-- zero padding added to a scoped PDU of length `n` for block size `bs` -/
def padLen (bs n : Nat) : Nat := if n % bs > 0 then bs - n % bs else 0

theorem padLen_lt (bs n : Nat) (h : 0 < bs) : padLen bs n < bs := by
  unfold padLen; split <;> omega

theorem data_prepend (enc : Bytes) (bm : Nat) : (Buf.mk (enc.map some) bm).data = .ok enc := by
  unfold Buf.data
  have hall : (enc.map some).all Option.isSome = true := by simp [List.all_eq_true]
  simp only [hall, if_true, filterMap_id_map_some]

/-- **what is encrypted**: whatever the private buffer held, the region handed to the cipher is the
serialised scoped PDU followed by fewer than one block of zero octets -/
theorem privSerialize_spec (bs : Nat) (hbs : 0 < bs) (buf : Buf) (s : ScopedPdu) (e : Bytes)
    (he : encScoped s = some e) (hfit : e.length + bs ≤ Buf.cap) :
    ∃ b', privSerialize bs buf s = .ok (b', e ++ List.replicate (padLen bs e.length) 0) ∧
      b'.cells = (e ++ List.replicate bs 0).map some := by
  unfold privSerialize
  have hr : buf.reset.Inv := by simp [Buf.Inv, Buf.reset]
  have hlen0 : buf.reset.len = 0 := rfl
  simp only []
  rw [push_spec _ hr]
  unfold specOut
  rw [hlen0, if_pos (by simp only [List.length_replicate]; omega)]
  simp only [bind_ok]
  have hi : (buf.reset.prepend (List.replicate bs 0)).Inv := by
    simp only [Buf.Inv, Buf.prepend, Buf.reset, List.append_nil, List.length_map, List.length_replicate]; omega
  rw [pushScoped_spec _ hi s e he]
  unfold specOut
  rw [if_pos (by simp only [Buf.prepend_len, hlen0, List.length_replicate]; omega)]
  simp only [bind_ok, Buf.prepend_prepend]
  have hl : (buf.reset.prepend (e ++ List.replicate bs 0)).len = e.length + bs := by
    simp [Buf.len, Buf.prepend, Buf.reset]
  rw [hl, usub_ok (by omega)]
  simp only [bind_ok, Nat.add_sub_cancel]
  have hd : (buf.reset.prepend (e ++ List.replicate bs 0)).data = .ok (e ++ List.replicate bs 0) := by
    simp only [Buf.prepend, Buf.reset, List.append_nil]
    exact data_prepend _ _
  rw [hd]
  simp only [bind_ok]
  have hpl : (if e.length % bs > 0 then e.length + bs - e.length % bs else e.length) = e.length + padLen bs e.length := by
    unfold padLen
    have := Nat.mod_lt e.length hbs
    split <;> omega
  rw [hpl, sliceTo_ok (by simp only [List.length_append, List.length_replicate]; have := padLen_lt bs e.length hbs; omega)]
  refine ⟨buf.reset.prepend (e ++ List.replicate bs 0), ?_, by simp [Buf.prepend, Buf.reset]⟩
  simp only [bind_ok, pure_eq]
  congr 2
  rw [List.take_append, List.take_of_length_le (by omega)]
  simp only [Nat.add_sub_cancel_left, List.take_replicate]
  congr 2
  have := padLen_lt bs e.length hbs
  omega

/-! ## xor is an involution -/

theorem xorByte_cancel (a b : UInt8) : xorByte (xorByte a b) b = a := by
  unfold xorByte
  rw [UInt8.xor_assoc, UInt8.xor_self, UInt8.xor_zero]

theorem xorBytes_cancel : ∀ (p iv : Bytes), p.length ≤ iv.length → xorBytes (xorBytes p iv) iv = p
  | [], _, _ => by simp [xorBytes]
  | a :: as, [], h => by simp at h
  | a :: as, b :: bs, h => by
    simp only [xorBytes, List.zipWith_cons_cons, xorByte_cancel]
    congr 1
    exact xorBytes_cancel as bs (by simpa using h)

theorem xorBytes_len (a b : Bytes) (h : a.length = b.length) : (xorBytes a b).length = a.length := by
  rw [xorBytes_length]; omega

/-- CBC decryption inverts CBC encryption on whole blocks -/
theorem cbc_inverse (E Dd : Bytes → Bytes) (hinv : ∀ b, b.length = 8 → Dd (E b) = b)
    (hlen : ∀ b, (E b).length = 8) :
    ∀ (ps : List Bytes) (iv : Bytes), iv.length = 8 → (∀ p ∈ ps, p.length = 8) →
      cbcDecBlocks Dd iv (cbcEncBlocks E iv ps) = ps
  | [], _, _, _ => rfl
  | p :: ps, iv, hiv, hp => by
    simp only [cbcEncBlocks, cbcDecBlocks]
    have hp8 := hp p (by simp)
    rw [hinv _ (by rw [xorBytes_len _ _ (by omega)]; exact hp8), xorBytes_cancel p iv (by omega)]
    congr 1
    exact cbc_inverse E Dd hinv hlen ps _ (hlen _) (fun x hx => hp x (by simp [hx]))

/-- CFB decryption inverts CFB encryption (any block lengths up to 16) -/
theorem cfb_inverse (E : Bytes → Bytes) (hlen : ∀ b, (E b).length = 16) :
    ∀ (ps : List Bytes) (iv : Bytes), (∀ p ∈ ps, p.length ≤ 16) →
      cfbDecBlocks E iv (cfbEncBlocks E iv ps) = ps
  | [], _, _ => rfl
  | p :: ps, iv, hp => by
    simp only [cfbEncBlocks, cfbDecBlocks]
    have hp16 := hp p (by simp)
    rw [xorBytes_cancel p (E iv) (by rw [hlen]; exact hp16)]
    congr 1
    exact cfb_inverse E hlen ps _ (fun x hx => hp x (by simp [hx]))

end GufoSnmp
