import GufoSnmp.Lemmas.RoundTrip
import GufoSnmp.Lemmas.OidLemmas
import GufoSnmp.Model.Op
/-!
# Value decoding against an independent reading of X.690 / RFC 2578 (for C02)

`SV` is what the agent means; `Content sv c` says that the octets `c` are an X.690 content
encoding of it (not necessarily the shortest: INTEGER may carry redundant sign octets up to 8,
unsigned types any number of leading zero octets); `LenForm L ls` says that the octets `ls` are
a definite-form length field denoting `L` (short form, or long form with 1..8 octets, leading
zeros allowed).  `valueFromBer` is then shown to return `denote sv` for every such encoding.
-/
namespace GufoSnmp
open Gen Outcome

/-- big-endian value of an octet string -/
def beNat (bs : Bytes) : Nat := bs.foldl (fun a x => a * 256 + x.toNat) 0

/-- definite-form length octets: short form, or long form `0x80+k` followed by `k` octets -/
def LenForm (L : Nat) (ls : Bytes) : Prop :=
  (L < 128 ∧ ls = [UInt8.ofNat L]) ∨
  (∃ bs : Bytes, 1 ≤ bs.length ∧ bs.length ≤ 8 ∧ beNat bs = L ∧ ls = UInt8.ofNat (128 + bs.length) :: bs)

theorem foldl_be_lt : ∀ (bs : Bytes) (acc k : Nat), bs.length ≤ k → acc < 256 ^ (k - bs.length) →
    bs.foldl (fun a x => a * 256 + x.toNat) acc < 256 ^ k := by
  intro bs
  induction bs with
  | nil => intro acc k _ h; simpa using h
  | cons b rest ih =>
    intro acc k hk h
    simp only [List.foldl_cons]
    apply ih _ k (by simp at hk; omega)
    have hb := b.toNat_lt
    simp only [List.length_cons] at hk h
    have e : k - rest.length = (k - (rest.length + 1)) + 1 := by omega
    rw [e, Nat.pow_succ]
    omega

theorem lenLoop_be : ∀ (bs : Bytes) (acc : Nat) (r : Bytes), bs.length ≤ 8 → acc < 256 ^ (8 - bs.length) →
    lenLoop bs.length (bs ++ r) acc = .ok (bs.foldl (fun a x => a * 256 + x.toNat) acc, r) := by
  intro bs
  induction bs with
  | nil => intro acc r _ _; simp [lenLoop]
  | cons b rest ih =>
    intro acc r hl hacc
    simp only [List.length_cons] at hl hacc
    simp only [List.length_cons, List.cons_append, lenLoop, List.foldl_cons]
    have h256 : acc * 256 < 2 ^ 64 := by
      have : acc * 256 < 256 ^ (8 - (rest.length + 1)) * 256 := by omega
      have e : 256 ^ (8 - (rest.length + 1)) * 256 = 256 ^ (8 - rest.length) := by
        rw [← Nat.pow_succ]; congr 1; omega
      have h8 : 256 ^ (8 - rest.length) ≤ 256 ^ 8 := Nat.pow_le_pow_right (by omega) (by omega)
      have : (256 : Nat) ^ 8 = 2 ^ 64 := by decide
      omega
    rw [Nat.mod_eq_of_lt h256]
    apply ih _ r (by omega)
    have hb := b.toNat_lt
    have e : 8 - rest.length = (8 - (rest.length + 1)) + 1 := by omega
    rw [e, Nat.pow_succ]
    clear h256 e ih
    generalize 256 ^ (8 - (rest.length + 1)) = X at *
    omega

/-- the header parser reads every definite length form -/
theorem parseHeader_lenForm (tag : UInt8) (ht : tag.toNat % 32 ≠ 31) (L : Nat) (ls : Bytes)
    (hf : LenForm L ls) (tail : Bytes) (hl : L ≤ tail.length) :
    parseHeader (tag :: ls ++ tail) = .ok (hdrOf tag L, tail) := by
  rcases hf with ⟨h128, rfl⟩ | ⟨bs, h1, h8, hbe, rfl⟩
  · simp only [List.cons_append, List.nil_append]
    unfold parseHeader
    simp only [if_neg ht, bind_ok]
    have e : (UInt8.ofNat L).toNat = L := ofNat_toNat (by omega)
    simp only [e, if_pos h128, bind_ok]
    rw [if_neg (by omega)]; rfl
  · simp only [List.cons_append]
    unfold parseHeader
    simp only [if_neg ht, bind_ok]
    have e : (UInt8.ofNat (128 + bs.length)).toNat = 128 + bs.length := ofNat_toNat (by omega)
    simp only [e]
    rw [if_neg (by omega)]
    have e2 : (128 + bs.length) % 128 = bs.length := by omega
    rw [e2, lenLoop_be bs 0 tail h8 (Nat.pow_pos (by omega))]
    simp only [bind_ok]
    have : bs.foldl (fun a x => a * 256 + x.toNat) 0 = L := hbe
    rw [this, if_neg (by omega)]
    rfl

/-- `SnmpValue::from_ber` on identifier + any length form + content -/
theorem valueFromBer_general (tag : UInt8) (ht : tag.toNat % 32 ≠ 31) (c : Bytes) (ls : Bytes)
    (hf : LenForm c.length ls) (rest : Bytes) :
    valueFromBer (tag :: ls ++ (c ++ rest)) =
      (decodeValue (c ++ rest) (hdrOf tag c.length)).bind (fun v => .ok (v, rest)) := by
  unfold valueFromBer
  rw [parseHeader_lenForm tag ht c.length ls hf (c ++ rest) (by simp)]
  simp only [bind_ok]
  cases decodeValue (c ++ rest) (hdrOf tag c.length) with
  | ok v =>
    simp only [bind_ok, Outcome.bind]
    have : (hdrOf tag c.length).length = c.length := rfl
    rw [this, sliceFrom_ok (by simp)]
    simp
  | err e => rfl
  | panic w => rfl

theorem LenForm.length_pos {L : Nat} {ls : Bytes} (h : LenForm L ls) : 1 ≤ ls.length := by
  rcases h with ⟨_, rfl⟩ | ⟨bs, _, _, _, rfl⟩ <;> simp

/-- generic `from_ber` on identifier + any length form + content -/
theorem fromBer_lenForm {α} (d : Decoder α) (tag : UInt8) (ht : tag.toNat % 32 ≠ 31)
    (htag : tag.toNat % 32 = d.tag)
    (hform : ((tag.toNat / 32) % 2 == 1) = true → d.allowConstructed = true)
    (hform' : ((tag.toNat / 32) % 2 == 1) = false → d.allowPrimitive = true)
    (content ls rest : Bytes) (hf : LenForm content.length ls) :
    fromBer d (tag :: ls ++ (content ++ rest)) =
      (d.decode (content ++ rest) (hdrOf tag content.length)).bind (fun v => .ok (v, rest)) := by
  unfold fromBer
  have hlen : ¬ (tag :: ls ++ (content ++ rest)).length < 2 := by
    have := hf.length_pos
    simp only [List.cons_append, List.length_cons, List.length_append]; omega
  rw [if_neg hlen, parseHeader_lenForm tag ht _ ls hf _ (by simp)]
  simp only [bind_ok]
  have hcond : ((hdrOf tag content.length).tag ≠ d.tag
      || ((hdrOf tag content.length).constructed && !d.allowConstructed)
      || (!(hdrOf tag content.length).constructed && !d.allowPrimitive)) = false := by
    simp only [hdrOf, htag]
    cases hcons : ((tag.toNat / 32) % 2 == 1) with
    | true => simp [hform hcons]
    | false => simp [hform' hcons]
  split
  · rename_i hc; rw [hcond] at hc; cases hc
  · have hlen2 : (hdrOf tag content.length).length = content.length := rfl
    rw [sliceFrom_ok (by rw [hlen2]; simp)]
    simp only [bind_ok, hlen2, List.drop_left]
    cases d.decode (content ++ rest) _ <;> rfl

/-- the minimal length form the library itself writes is one of the accepted forms -/
theorem lenForm_short (L : Nat) (h : L < 128) : LenForm L [UInt8.ofNat L] := Or.inl ⟨h, rfl⟩

/-- unsigned accumulators: the big-endian value, whenever it fits -/
theorem foldl_mod_eq : ∀ (bs : Bytes) (acc bits : Nat),
    bs.foldl (fun a x => a * 256 + x.toNat) acc < 2 ^ bits →
    bs.foldl (fun a x => (a * 256 + x.toNat) % 2 ^ bits) acc = bs.foldl (fun a x => a * 256 + x.toNat) acc := by
  intro bs
  induction bs with
  | nil => intro acc bits _; rfl
  | cons b rest ih =>
    intro acc bits h
    simp only [List.foldl_cons] at h ⊢
    have hmono : ∀ (xs : Bytes) (a : Nat), a ≤ xs.foldl (fun a x => a * 256 + x.toNat) a := by
      intro xs
      induction xs with
      | nil => intro a; simp
      | cons x xs ihx => intro a; simp only [List.foldl_cons]; exact Nat.le_trans (by omega) (ihx _)
    have hlt : acc * 256 + b.toNat < 2 ^ bits := Nat.lt_of_le_of_lt (hmono rest _) h
    rw [Nat.mod_eq_of_lt hlt]
    exact ih _ bits h

theorem decodeUnsigned_be (bits : Nat) (c rest : Bytes) (hdr : Header) (hl : hdr.length = c.length)
    (hfit : beNat c < 2 ^ bits) : decodeUnsigned bits (c ++ rest) hdr = .ok (beNat c) := by
  unfold decodeUnsigned
  rw [hl, take_left']
  rw [foldl_mod_eq c 0 bits hfit]
  rfl

end GufoSnmp
