import GufoSnmp.Lemmas.TotalOp
/-!
# Block-mode and private-buffer lemmas; totality of `decrypt`, `unwrap_pdu`, the receive loop
-/
namespace GufoSnmp
open Gen Outcome

/-- contract of the block-cipher parameters: they return whole blocks, and DES decryption
inverts DES encryption -/
structure Ciphers.WF (C : Ciphers) : Prop where
  desEnc_len : ∀ k b, (C.desEnc k b).length = 8
  desDec_len : ∀ k b, (C.desDec k b).length = 8
  aesEnc_len : ∀ k b, (C.aesEnc k b).length = 16
  des_inv : ∀ k b, b.length = 8 → C.desDec k (C.desEnc k b) = b

theorem xorBytes_length (a b : Bytes) : (xorBytes a b).length = min a.length b.length := by
  simp [xorBytes, List.length_zipWith]

theorem chunks_flatten (n : Nat) (hn : 0 < n) (bs : Bytes) : (chunks n bs).flatten = bs := by
  induction hl : bs.length using Nat.strongRecOn generalizing bs with
  | _ l ih =>
    unfold chunks
    split
    · rename_i h
      rcases h with h | h
      · omega
      · simp [h]
    · rename_i h
      have hne : bs ≠ [] := fun e => h (Or.inr e)
      have hpos : 0 < bs.length := List.length_pos_iff.mpr hne
      have := ih (bs.drop n).length (by simp only [List.length_drop]; omega) (bs.drop n) rfl
      simp only [List.flatten_cons, this, List.take_append_drop]

theorem chunks_le (n : Nat) (bs : Bytes) : ∀ c ∈ chunks n bs, c.length ≤ n := by
  induction hl : bs.length using Nat.strongRecOn generalizing bs with
  | _ l ih =>
    unfold chunks
    split
    · intro c hc; simp at hc
    · rename_i h
      have hne : bs ≠ [] := fun e => h (Or.inr e)
      have hn : n ≠ 0 := fun e => h (Or.inl e)
      have hpos : 0 < bs.length := List.length_pos_iff.mpr hne
      intro c hc
      simp only [List.mem_cons] at hc
      rcases hc with rfl | hc
      · simp [List.length_take]; omega
      · exact ih (bs.drop n).length (by simp only [List.length_drop]; omega) (bs.drop n) rfl c hc

theorem chunks_eq (n : Nat) (bs : Bytes) (hm : bs.length % n = 0) :
    ∀ c ∈ chunks n bs, c.length = n := by
  induction hl : bs.length using Nat.strongRecOn generalizing bs with
  | _ l ih =>
    unfold chunks
    split
    · intro c hc; simp at hc
    · rename_i h
      have hne : bs ≠ [] := fun e => h (Or.inr e)
      have hn : n ≠ 0 := fun e => h (Or.inl e)
      have hpos : 0 < bs.length := List.length_pos_iff.mpr hne
      have hge : n ≤ bs.length := by
        by_cases hlt : bs.length < n
        · rw [Nat.mod_eq_of_lt hlt] at hm; omega
        · omega
      intro c hc
      simp only [List.mem_cons] at hc
      rcases hc with rfl | hc
      · simp [List.length_take]; omega
      · refine ih (bs.drop n).length (by simp only [List.length_drop]; omega) (bs.drop n) ?_ rfl c hc
        simp only [List.length_drop]
        have : bs.length = (bs.length - n) + n := by omega
        rw [this, Nat.add_mod_right] at hm
        exact hm

theorem cbcDecBlocks_length (Dd : Bytes → Bytes) (hD : ∀ b, (Dd b).length = 8) :
    ∀ (cs : List Bytes) (iv : Bytes), iv.length = 8 → (∀ c ∈ cs, c.length = 8) →
      (cbcDecBlocks Dd iv cs).flatten.length = cs.flatten.length
  | [], _, _, _ => rfl
  | c :: cs, iv, hiv, hc => by
    simp only [cbcDecBlocks, List.flatten_cons, List.length_append]
    rw [cbcDecBlocks_length Dd hD cs c (hc c (by simp)) (fun x hx => hc x (by simp [hx]))]
    rw [xorBytes_length, hD, hiv, hc c (by simp)]
    omega

theorem cfbDecBlocks_length (E : Bytes → Bytes) (hE : ∀ b, (E b).length = 16) :
    ∀ (cs : List Bytes) (iv : Bytes), (∀ c ∈ cs, c.length ≤ 16) →
      (cfbDecBlocks E iv cs).flatten.length = cs.flatten.length
  | [], _, _ => rfl
  | c :: cs, iv, hc => by
    simp only [cfbDecBlocks, List.flatten_cons, List.length_append]
    rw [cfbDecBlocks_length E hE cs c (fun x hx => hc x (by simp [hx]))]
    rw [xorBytes_length, hE]
    have := hc c (by simp)
    omega

theorem cbcDec_length (C : Ciphers) (hC : C.WF) (key iv data : Bytes) (hiv : iv.length = 8)
    (hd : data.length % 8 = 0) : (cbcDec (C.desDec key) iv data).length = data.length := by
  unfold cbcDec
  rw [cbcDecBlocks_length _ (hC.desDec_len key) _ _ hiv (chunks_eq 8 data hd)]
  rw [chunks_flatten 8 (by omega)]

theorem cfbDec_length (C : Ciphers) (hC : C.WF) (key iv data : Bytes) :
    (cfbDec (C.aesEnc key) iv data).length = data.length := by
  unfold cfbDec
  rw [cfbDecBlocks_length _ (hC.aesEnc_len key) _ _ (chunks_le 16 data)]
  rw [chunks_flatten 16 (by omega)]

theorem overwrite_data (b : Buf) (bytes : Bytes) (h : bytes.length = b.cells.length) :
    (b.overwrite bytes).data = .ok bytes := by
  unfold Buf.overwrite Buf.data
  simp only [h, Nat.min_self, List.drop_length, List.append_nil]
  have ht : bytes.take b.cells.length = bytes := by rw [← h]; exact List.take_length
  rw [ht]
  have hall : (bytes.map some).all Option.isSome = true := by
    simp [List.all_eq_true]
  rw [if_pos hall]
  congr 1
  induction bytes with
  | nil => rfl
  | cons x xs ih => simp [List.filterMap_cons]

theorem decrypt_np (C : Ciphers) (hC : C.WF) (k : PrivKey) (data : Bytes) (usm : Usm) :
    NP (k.decrypt C data usm) := by
  unfold PrivKey.decrypt
  split
  · rfl
  · rename_i key preIv salt buf
    simp only
    split
    · rfl
    · rename_i hcond
      simp only [Bool.or_eq_true, decide_eq_true_eq, not_or, Nat.not_lt, ne_eq, Decidable.not_not] at hcond
      obtain ⟨hm, hlen⟩ := hcond
      have hsk : ((buf.reset).skip data.length).cells.length = data.length := by
        have : ((buf.reset).skip data.length).len ≤ data.length := by
          simp [Buf.len, Buf.skip, Buf.reset, Buf.pos]; omega
        simp only [Buf.len] at hlen this; omega
      have hiv : ((xorBytes (usm.privacyParams.take 8) preIv ++ List.replicate 8 0).take 8).length = 8 := by
        simp [List.length_take]
      have hpt := cbcDec_length C hC key _ data hiv hm
      rw [overwrite_data _ _ (by rw [hpt, hsk])]
      apply np_bind (np_ok _); intro plain _
      apply np_bind (scopedTryFrom_np _); intro _ _
      rfl
  · rename_i key salt buf
    split
    · rfl
    · simp only
      split
      · rfl
      · rename_i hlen
        simp only [ne_eq, Decidable.not_not] at hlen
        have hpt := cfbDec_length C hC key
          (beBytes 4 (asU32 usm.engineBoots) ++ beBytes 4 (asU32 usm.engineTime) ++ usm.privacyParams) data
        rw [overwrite_data _ _ (by rw [hpt]; simp only [Buf.len] at hlen; exact hlen.symm)]
        apply np_bind (np_ok _); intro plain _
        apply np_bind (scopedTryFrom_np _); intro _ _
        rfl

theorem unwrapV3_np (C : Ciphers) (hC : C.WF) (s : V3Session) (m : V3Msg) :
    NP (unwrapV3 C s m).2 := by
  unfold unwrapV3
  cases hm : m.data with
  | plaintext x =>
    simp only
    split <;> rfl
  | encrypted ct =>
    simp only
    have hd := decrypt_np C hC s.privKey ct m.usm
    cases hdec : s.privKey.decrypt C ct m.usm with
    | ok p =>
      obtain ⟨x, pk'⟩ := p
      simp only
      split <;> rfl
    | err e => rfl
    | panic w => rw [hdec] at hd; exact absurd hd (np_panic w)

theorem recvOne_np (C : Ciphers) (hC : C.WF) (s : Session) (dg : Bytes) : NP (s.recvOne C dg).2 := by
  unfold Session.recvOne
  split
  · rename_i cs
    have := communityMsgTryFrom_np cs.version dg
    split
    · rfl
    · rfl
    · rename_i w hw; rw [hw] at this; exact absurd this (np_panic w)
  · rename_i vs
    have := v3TryFrom_np dg
    split
    · exact unwrapV3_np C hC vs _
    · rfl
    · rename_i w hw; rw [hw] at this; exact absurd this (np_panic w)

theorem recvLoop_np (C : Ciphers) (hC : C.WF) (op : OpKind) :
    ∀ (dgs : List Bytes) (s : Session) (it : Option GetIter),
      (s.recvLoop C op it dgs).1.isPanic = false
  | [], _, _ => rfl
  | dg :: rest, s, it => by
    unfold Session.recvLoop
    have h1 := recvOne_np C hC s dg
    split
    · exact toPython_np op _ it
    · exact recvLoop_np C hC op rest _ it
    · rfl
    · rename_i s' w hw
      rw [hw] at h1; exact absurd h1 (np_panic w)

end GufoSnmp
