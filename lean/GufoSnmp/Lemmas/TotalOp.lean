import GufoSnmp.Lemmas.Total
import GufoSnmp.Model.Socket
/-!
# Totality of the op layer and of the receive loop
-/
namespace GufoSnmp
open Gen Outcome

theorem oidToStr_np (b : Bytes) : NP (oidToStr b) := by
  unfold oidToStr; split <;> rfl

theorem valueToPy_np (v : Value) (h : v.isData = true) : NP (valueToPy v) := by
  cases v <;> simp [Value.isData] at h <;> try rfl
  · unfold valueToPy
    apply np_bind (oidToStr_np _); intro _ _; rfl

theorem liftErr_np {α} {x : Outcome α} {k : α → PyOut} (hx : NP x)
    (hk : ∀ a, x = .ok a → (k a).isPanic = false) : (liftErr x k).isPanic = false := by
  unfold liftErr
  cases x with
  | ok a => exact hk a rfl
  | err e => rfl
  | panic w => exact absurd hx (np_panic w)

theorem opGetToPython_np (p : Pdu) : (opGetToPython p).isPanic = false := by
  unfold opGetToPython
  split
  · split
    · rfl
    · rename_i var
      split
      · rfl
      · rfl
      · rfl
      · rfl
      · rename_i v h1 h2 h3 h4
        apply liftErr_np
        · apply valueToPy_np
          cases hv : var.value <;> simp_all [Value.isData]
        · intro _ _; rfl
    · rfl
  · rfl
  · rfl

theorem getManyLoop_np : ∀ (vars : List VarBind) (acc : List (Bytes × PyScalar)),
    (getManyLoop vars acc).isPanic = false
  | [], _ => rfl
  | var :: more, acc => by
    unfold getManyLoop
    split
    · exact getManyLoop_np more acc
    · rename_i hd
      have hdata : var.value.isData = true := by simpa using hd
      split
      · split
        · exact getManyLoop_np more _
        · rfl
        · rename_i w hw
          have := valueToPy_np var.value hdata; rw [hw] at this; exact absurd this (np_panic w)
      · rfl
      · rename_i w hw
        have := oidToStr_np var.oid; rw [hw] at this; exact absurd this (np_panic w)

theorem opGetManyToPython_np (p : Pdu) : (opGetManyToPython p).isPanic = false := by
  unfold opGetManyToPython
  split
  · exact getManyLoop_np _ _
  · rfl
  · rfl

theorem opGetNextToPython_np (p : Pdu) (it : Option GetIter) :
    (opGetNextToPython p it).1.isPanic = false := by
  unfold opGetNextToPython
  split
  · rfl
  · split
    · split
      · rfl
      · rename_i var
        simp only
        split
        · rfl
        · split
          · rfl
          · rename_i hd
            have hdata : var.value.isData = true := by simpa using hd
            apply liftErr_np (oidToStr_np _); intro _ _
            apply liftErr_np (valueToPy_np _ hdata); intro _ _
            rfl
      · rfl
    · rfl
    · rfl

theorem getBulkLoop_np : ∀ (vars : List VarBind) (it : GetIter) (acc : List (Option (Bytes × Bytes × PyScalar))),
    ∀ out, (getBulkLoop vars it acc).1 = .error out → out.isPanic = false
  | [], _, _ => by intro out h; simp [getBulkLoop] at h
  | var :: more, it, acc => by
    intro out h
    unfold getBulkLoop at h
    split at h
    · exact getBulkLoop_np more it acc out h
    · rename_i hd
      have hdata : var.value.isData = true := by simpa using hd
      simp only at h
      split at h
      · cases h
      · split at h
        · split at h
          · exact getBulkLoop_np more _ _ out h
          · cases h; rfl
          · rename_i w hw
            have := valueToPy_np var.value hdata; rw [hw] at this; exact absurd this (np_panic w)
        · cases h; rfl
        · rename_i w hw
          have := oidToStr_np var.oid; rw [hw] at this; exact absurd this (np_panic w)

theorem opGetBulkToPython_np (p : Pdu) (it : Option GetIter) :
    (opGetBulkToPython p it).1.isPanic = false := by
  unfold opGetBulkToPython
  split
  · rfl
  · split
    · split
      · rfl
      · split
        · split <;> rfl
        · rename_i out it' heq
          have := getBulkLoop_np _ _ _ out (by rw [heq])
          exact this
    · rfl
    · rfl

theorem toPython_np (op : OpKind) (p : Pdu) (it : Option GetIter) :
    (toPython op p it).1.isPanic = false := by
  cases op <;> simp only [toPython]
  · exact opGetToPython_np p
  · exact opGetManyToPython_np p
  · exact opGetNextToPython_np p it
  · exact opGetBulkToPython_np p it
  · rfl

end GufoSnmp
