import GufoSnmp.Lemmas.EncSpecV3
import GufoSnmp.Spec.Hmac
/-!
# USM authentication: `sign` is HMAC-96 spliced at the bookmark; the bookmark is the offset of
msgAuthenticationParameters
-/
namespace GufoSnmp
open Gen Outcome

theorem map_xor_pad (key : Bytes) (n : Nat) (c : UInt8) :
    (key ++ List.replicate n 0).map (fun x => x ^^^ c) = key.map (xorByte · c) ++ List.replicate n c := by
  simp only [List.map_append, List.map_replicate, xorByte]
  congr 2
  exact UInt8.zero_xor

/-- the digest `sign` computes is RFC 2104 HMAC under the session key -/
theorem hash_len (D : Digests) (hD : D.WF) (alg : AuthAlg) (m : Bytes) : (D.hash alg m).length = alg.keySize := by
  cases alg
  · exact hD.md5_len m
  · exact hD.sha1_len m

theorem sliceTo_hash (D : Digests) (hD : D.WF) (alg : AuthAlg) (x : Bytes) :
    sliceTo (D.hash alg x) alg.keySize = .ok (D.hash alg x) := by
  rw [sliceTo_ok (by rw [hash_len D hD]; exact Nat.le_refl _)]
  congr 1
  rw [← hash_len D hD alg x, List.take_length]

theorem signDigest_hmac (D : Digests) (hD : D.WF) (alg : AuthAlg) (key data : Bytes)
    (hk : key.length = alg.keySize) :
    signDigest D alg key data = .ok (Spec.hmac (D.hash alg) 64 key data) := by
  unfold signDigest Spec.hmac
  have hks : alg.keySize ≤ 64 := by cases alg <;> decide
  have hpl : hmacPaddedLength = 64 := rfl
  rw [hpl, usub_ok hks]
  simp only [bind_ok, sliceTo_hash D hD, pure_eq]
  have e1 : (UInt8.ofNat ipadValue) = 0x36 := rfl
  have e2 : (UInt8.ofNat opadValue) = 0x5c := rfl
  rw [hk, map_xor_pad key (64 - alg.keySize) 0x5c, map_xor_pad key (64 - alg.keySize) 0x36, e1, e2]

/-- replace `n` octets at `off` -/
def splice (data : Bytes) (off : Nat) (new : Bytes) : Bytes :=
  data.take off ++ new ++ data.drop (off + new.length)

/-- **sign = HMAC-96 at the offset** -/
theorem sign_is_hmac96 (D : Digests) (hD : D.WF) (alg : AuthAlg) (key data : Bytes) (off : Nat)
    (hk : key.length = alg.keySize) (ho : off + 12 ≤ data.length) :
    sign D (.digest alg key) data off = .ok (splice data off (Spec.hmac96 (D.hash alg) key data)) := by
  unfold sign
  simp only
  rw [signDigest_hmac D hD alg key data hk]
  simp only [bind_ok]
  have hss : alg.signSize = 12 := by cases alg <;> rfl
  have hl : (Spec.hmac (D.hash alg) 64 key data).length = alg.keySize := by
    unfold Spec.hmac; exact hash_len D hD alg _
  have hks : 12 ≤ alg.keySize := by cases alg <;> decide
  unfold slice
  rw [hss, if_pos ⟨by omega, by omega⟩]
  simp only [bind_ok, List.drop_zero]
  rw [if_pos ho]
  unfold splice Spec.hmac96
  simp only [pure_eq, List.length_take]
  congr 3
  omega

end GufoSnmp
