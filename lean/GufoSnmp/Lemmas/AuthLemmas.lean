import GufoSnmp.Lemmas.EncSpecV3
import GufoSnmp.Spec.Hmac
/-!
# USM authentication: `sign` is HMAC-96 spliced at the bookmark; the bookmark is the offset of
msgAuthenticationParameters
-/
namespace GufoSnmp
open Gen Outcome

theorem map_xor_pad (key : Bytes) (n : Nat) (c : UInt8) :
    (key ++ List.replicate n 0).map (fun x => x ^^^ c) = key.map (xorByte · c) ++ List.replicate n c := by
  simp only [List.map_append, List.map_replicate, xorByte]
  congr 2
  exact UInt8.zero_xor

/-- the digest `sign` computes is RFC 2104 HMAC under the session key -/
theorem hash_len (D : Digests) (hD : D.WF) (alg : AuthAlg) (m : Bytes) : (D.hash alg m).length = alg.keySize := by
  cases alg
  · exact hD.md5_len m
  · exact hD.sha1_len m

theorem sliceTo_hash (D : Digests) (hD : D.WF) (alg : AuthAlg) (x : Bytes) :
    sliceTo (D.hash alg x) alg.keySize = .ok (D.hash alg x) := by
  rw [sliceTo_ok (by rw [hash_len D hD]; exact Nat.le_refl _)]
  congr 1
  rw [← hash_len D hD alg x, List.take_length]

theorem signDigest_hmac (D : Digests) (hD : D.WF) (alg : AuthAlg) (key data : Bytes)
    (hk : key.length = alg.keySize) :
    signDigest D alg key data = .ok (Spec.hmac (D.hash alg) 64 key data) := by
  unfold signDigest Spec.hmac
  have hks : alg.keySize ≤ 64 := by cases alg <;> decide
  have hpl : hmacPaddedLength = 64 := rfl
  rw [hpl, usub_ok hks]
  simp only [bind_ok, sliceTo_hash D hD, pure_eq]
  have e1 : (UInt8.ofNat ipadValue) = 0x36 := rfl
  have e2 : (UInt8.ofNat opadValue) = 0x5c := rfl
  rw [hk, map_xor_pad key (64 - alg.keySize) 0x5c, map_xor_pad key (64 - alg.keySize) 0x36, e1, e2]

/-- replace `n` octets at `off` -/
def splice (data : Bytes) (off : Nat) (new : Bytes) : Bytes :=
  data.take off ++ new ++ data.drop (off + new.length)

/-- **sign = HMAC-96 at the offset** -/
theorem sign_is_hmac96 (D : Digests) (hD : D.WF) (alg : AuthAlg) (key data : Bytes) (off : Nat)
    (hk : key.length = alg.keySize) (ho : off + 12 ≤ data.length) :
    sign D (.digest alg key) data off = .ok (splice data off (Spec.hmac96 (D.hash alg) key data)) := by
  unfold sign
  simp only
  rw [signDigest_hmac D hD alg key data hk]
  simp only [bind_ok]
  have hss : alg.signSize = 12 := by cases alg <;> rfl
  have hl : (Spec.hmac (D.hash alg) 64 key data).length = alg.keySize := by
    unfold Spec.hmac; exact hash_len D hD alg _
  have hks : 12 ≤ alg.keySize := by cases alg <;> decide
  unfold slice
  rw [hss, if_pos ⟨by omega, by omega⟩]
  simp only [bind_ok, List.drop_zero]
  rw [if_pos ho]
  unfold splice Spec.hmac96
  simp only [pure_eq, List.length_take]
  congr 3
  omega

end GufoSnmp

namespace GufoSnmp
open Gen Outcome

/-- octets of a serialised v3 message in front of the content of msgAuthenticationParameters -/
def v3Prefix (m : V3Msg) (d : Bytes) : Bytes :=
  tagLenBytes 0x30 (encV3Body m d).length ++ ([UInt8.ofNat tagInt, 1, UInt8.ofNat snmpV3] ++ (encV3Header m ++
    (tagLenBytes (UInt8.ofNat tagOctetString) (encUsm m.usm).length ++
      (tagLenBytes 0x30 (tlvBytes (UInt8.ofNat tagOctetString) m.usm.engineId ++ (encInt m.usm.engineBoots ++
          (encInt m.usm.engineTime ++ (tlvBytes (UInt8.ofNat tagOctetString) m.usm.userName ++
            (tlvBytes (UInt8.ofNat tagOctetString) m.usm.authParams ++
              tlvBytes (UInt8.ofNat tagOctetString) m.usm.privacyParams))))).length ++
        (tlvBytes (UInt8.ofNat tagOctetString) m.usm.engineId ++ (encInt m.usm.engineBoots ++
          (encInt m.usm.engineTime ++ (tlvBytes (UInt8.ofNat tagOctetString) m.usm.userName ++
            tagLenBytes (UInt8.ofNat tagOctetString) m.usm.authParams.length))))))))

/-- octets after the content of msgAuthenticationParameters: msgPrivacyParameters and msgData -/
def v3Suffix (m : V3Msg) (d : Bytes) : Bytes :=
  tlvBytes (UInt8.ofNat tagOctetString) m.usm.privacyParams ++ d

/-- a serialised v3 message is prefix ‖ msgAuthenticationParameters ‖ suffix -/
theorem encV3_split (m : V3Msg) (d : Bytes) :
    tlvBytes 0x30 (encV3Body m d) = v3Prefix m d ++ (m.usm.authParams ++ v3Suffix m d) := by
  simp only [tlvBytes, encV3Body, v3Tail, encUsm, v3Prefix, v3Suffix, List.append_assoc]

/-- **offset**: after `push_ber` of a v3 message with authentication parameters of 1..127 octets
into an empty buffer, `get_bookmark()` is the offset of those parameters within the datagram -/
theorem v3_bookmark_offset (b : Buf) (hb : b.cells = []) (m : V3Msg) (d enc : Bytes)
    (hd : encMsgData m.data = some d) (he : encV3 m = some enc) (hfit : enc.length ≤ Buf.cap)
    (ha1 : 1 ≤ m.usm.authParams.length) (ha2 : m.usm.authParams.length < 128) :
    ∃ b', pushV3 b m = .ok b' ∧ b'.data = .ok enc ∧ b'.getBookmark = .ok (v3Prefix m d).length ∧
      enc = v3Prefix m d ++ (m.usm.authParams ++ v3Suffix m d) := by
  have hspec := pushV3_spec b hb m d enc hd he
  unfold specOutB at hspec
  have hl : b.len = 0 := by simp [Buf.len, hb]
  rw [if_pos (by omega)] at hspec
  have henc : enc = tlvBytes 0x30 (encV3Body m d) := by
    unfold encV3 at he; rw [hd] at he; simp only [Option.map_some, Option.some.injEq] at he; exact he.symm
  refine ⟨_, hspec, ?_, ?_, by rw [henc]; exact encV3_split m d⟩
  · unfold Buf.data
    simp only [hb, List.append_nil]
    have hall : (enc.map some).all Option.isSome = true := by simp [List.all_eq_true]
    rw [if_pos hall, filterMap_id_map_some]
  · unfold Buf.getBookmark v3Bookmark usmBookmark Buf.pos
    have hne : m.usm.authParams.isEmpty = false := by
      cases h : m.usm.authParams with
      | nil => rw [h] at ha1; simp at ha1
      | cons _ _ => rfl
    simp only [hne, Bool.false_eq_true, if_false, hb, List.append_nil, List.length_map, Buf.prepend_len, hl,
      Nat.add_zero]
    have hsplit := congrArg List.length (encV3_split m d)
    rw [← henc] at hsplit
    simp only [List.length_append, v3Suffix] at hsplit
    have hta : (tlvBytes (UInt8.ofNat tagOctetString) m.usm.authParams).length = m.usm.authParams.length + 2 := by
      unfold tlvBytes tagLenBytes
      rw [if_pos ha2]; simp
    have hP2 : 2 ≤ (v3Prefix m d).length := by
      unfold v3Prefix
      have : 2 ≤ (tagLenBytes 0x30 (encV3Body m d).length).length := by
        unfold tagLenBytes; split <;> (try split) <;> simp
      rw [List.length_append]; omega
    generalize hT : (tlvBytes (UInt8.ofNat tagOctetString) m.usm.authParams).length = T at *
    generalize hP : (v3Prefix m d).length = P at *
    generalize hA : m.usm.authParams.length = A at *
    generalize hQ : (tlvBytes (UInt8.ofNat tagOctetString) m.usm.privacyParams).length = Q at *
    generalize hE : enc.length = E at *
    generalize hDl : d.length = Dl at *
    generalize hC : Buf.cap = C at *
    rw [usub_ok (by omega)]
    congr 1
    omega

end GufoSnmp
