import GufoSnmp.Model.Socket
import GufoSnmp.Lemmas.Total
/-!
# Encoder specifications: every `push_ber` either prepends a pure byte string or fails with
`OutOfBuffer`, depending only on whether that byte string fits
-/
namespace GufoSnmp
open Gen Outcome

namespace Buf

def prepend (b : Buf) (bs : Bytes) : Buf := { b with cells := bs.map some ++ b.cells }

/-- the buffer invariant: `pos ≥ 0`, i.e. at most `cap` cells -/
def Inv (b : Buf) : Prop := b.cells.length ≤ cap

@[simp] theorem prepend_nil (b : Buf) : b.prepend [] = b := rfl

theorem prepend_prepend (b : Buf) (x y : Bytes) : (b.prepend x).prepend y = b.prepend (y ++ x) := by
  simp [prepend, List.map_append, List.append_assoc]

@[simp] theorem prepend_len (b : Buf) (x : Bytes) : (b.prepend x).len = x.length + b.len := by
  simp [prepend, len]

@[simp] theorem prepend_bookmark (b : Buf) (x : Bytes) : (b.prepend x).bookmark = b.bookmark := rfl

end Buf

/-- outcome of an encoder that writes `enc` in front of `b` -/
def specOut (b : Buf) (enc : Bytes) : Outcome Buf :=
  if b.len + enc.length ≤ Buf.cap then .ok (b.prepend enc) else .err .OutOfBuffer

theorem specOut_inv {b b' : Buf} {enc : Bytes} (h : specOut b enc = .ok b') : b'.Inv := by
  unfold specOut at h
  split at h
  · cases h; simp only [Buf.Inv]; have := Buf.prepend_len b enc; simp only [Buf.len] at *; omega
  · cases h

theorem pos_eq (b : Buf) : b.pos = Buf.cap - b.len := rfl

theorem push_spec (b : Buf) (hb : b.Inv) (chunk : Bytes) : b.push chunk = specOut b chunk := by
  unfold Buf.push specOut
  have hp : b.pos = Buf.cap - b.cells.length := rfl
  have hl : b.len = b.cells.length := rfl
  unfold Buf.Inv at hb
  split <;> split
  · exfalso; omega
  · rfl
  · rfl
  · exfalso; omega

theorem pushU8_spec (b : Buf) (hb : b.Inv) (v : UInt8) : b.pushU8 v = specOut b [v] := by
  unfold Buf.pushU8 specOut
  have hp : b.pos = Buf.cap - b.cells.length := rfl
  have hl : b.len = b.cells.length := rfl
  unfold Buf.Inv at hb
  simp only [List.length_singleton]
  split <;> split
  · exfalso; omega
  · rfl
  · rfl
  · exfalso; omega

/-- identifier + length octets written by `push_tag_len` -/
def tagLenBytes (tag : UInt8) (v : Nat) : Bytes :=
  if v < 128 then [tag, UInt8.ofNat (v % 256)]
  else if v < 256 then [tag, 0x81, UInt8.ofNat (v % 256)]
  else [tag, 0x82, UInt8.ofNat ((v / 256) % 256), UInt8.ofNat (v % 256)]

theorem pushTagLen_spec (b : Buf) (hb : b.Inv) (tag : UInt8) (v : Nat) :
    b.pushTagLen tag v = specOut b (tagLenBytes tag v) := by
  unfold Buf.pushTagLen specOut tagLenBytes
  have hp : b.pos = Buf.cap - b.cells.length := rfl
  have hl : b.len = b.cells.length := rfl
  unfold Buf.Inv at hb
  split
  · simp only [List.length_cons, List.length_nil]
    split <;> split
    · exfalso; omega
    · rfl
    · rfl
    · exfalso; omega
  · split
    · simp only [List.length_cons, List.length_nil]
      split <;> split
      · exfalso; omega
      · rfl
      · rfl
      · exfalso; omega
    · simp only [List.length_cons, List.length_nil]
      split <;> split
      · exfalso; omega
      · rfl
      · rfl
      · exfalso; omega

/-- sequencing: an encoder with spec `e1` followed by one that, on the intermediate buffer,
has spec `e2`, has spec `e2 ++ e1` -/
theorem bind_spec {x : Outcome Buf} {b : Buf} {e1 e2 : Bytes} {f : Buf → Outcome Buf}
    (h1 : x = specOut b e1)
    (h2 : (b.prepend e1).Inv → f (b.prepend e1) = specOut (b.prepend e1) e2) :
    (x >>= f) = specOut b (e2 ++ e1) := by
  rw [h1]
  unfold specOut at *
  by_cases hf : b.len + e1.length ≤ Buf.cap
  · rw [if_pos hf]
    simp only [bind_ok]
    rw [h2 (by simp only [Buf.Inv]; have := Buf.prepend_len b e1; simp only [Buf.len] at *; omega)]
    simp only [Buf.prepend_len, List.length_append, Buf.prepend_prepend]
    split <;> split
    · rfl
    · exfalso; omega
    · exfalso; omega
    · rfl
  · rw [if_neg hf]
    simp only [bind_err, List.length_append]
    rw [if_neg (by omega)]

theorem usub_prepend (b : Buf) (e : Bytes) : usub (b.prepend e).len b.len = .ok e.length := by
  rw [usub_ok (by simp)]; simp

end GufoSnmp

namespace GufoSnmp
open Gen Outcome

theorem specOut_nil (b : Buf) (hb : b.Inv) : specOut b [] = .ok b := by
  unfold specOut
  have hl : b.len = b.cells.length := rfl
  unfold Buf.Inv at hb
  simp only [List.length_nil]
  split
  · rfl
  · exfalso; omega

theorem filterMap_id_map_some (l : Bytes) : (l.map some).filterMap id = l := by
  induction l with
  | nil => rfl
  | cons x xs ih => simp [List.filterMap_cons, ih]

theorem data_prepend_empty (enc : Bytes) : (Buf.empty.prepend enc).data = .ok enc := by
  unfold Buf.data Buf.prepend Buf.empty
  simp only [List.append_nil]
  have hall : (enc.map some).all Option.isSome = true := by simp [List.all_eq_true]
  rw [if_pos hall, filterMap_id_map_some]

theorem Outcome.bind_assoc {α β γ} (x : Outcome α) (f : α → Outcome β) (g : β → Outcome γ) :
    ((x >>= f) >>= g) = (x >>= fun a => f a >>= g) := by
  cases x <;> rfl

/-! ## INTEGER -/

/-- content octets written by the positive branch of `SnmpInt::push_ber` -/
def posBytes (left : Nat) : Bytes :=
  if h : left < 255 then
    (if left % 256 ≥ 128 then [0, UInt8.ofNat (left % 256)] else [UInt8.ofNat (left % 256)])
  else posBytes (left / 256) ++ [UInt8.ofNat (left % 256)]
termination_by left
decreasing_by omega

/-- content octets written by the negative branch -/
def negBytes (left : Int) : Bytes :=
  if hneg : left ≥ 0 then []
  else
    if left / 256 = -1 ∧ left % 256 ≥ 128 then [UInt8.ofNat (left % 256).toNat]
    else negBytes (left / 256) ++ [UInt8.ofNat (left % 256).toNat]
termination_by left.natAbs
decreasing_by omega

theorem pushIntPos_spec : ∀ (left : Nat) (b : Buf), b.Inv → pushIntPos b left = specOut b (posBytes left) := by
  intro left
  induction left using Nat.strongRecOn with
  | _ left ih =>
    intro b hb
    unfold pushIntPos posBytes
    split
    · rename_i hlt
      split
      · exact bind_spec (f := fun b1 => b1.pushU8 0) (e2 := [0]) (pushU8_spec b hb _)
          (fun hi => pushU8_spec _ hi 0)
      · exact bind_spec (f := fun b1 => pure b1) (e2 := []) (pushU8_spec b hb _)
          (fun hi => (specOut_nil _ hi).symm)
    · rename_i hlt
      exact bind_spec (f := fun b1 => pushIntPos b1 (left / 256)) (e2 := posBytes (left / 256))
        (pushU8_spec b hb _) (fun hi => ih (left / 256) (by omega) _ hi)

theorem pushIntNeg_spec : ∀ (n : Nat) (left : Int), left.natAbs = n → left < 0 → ∀ (b : Buf), b.Inv →
    pushIntNeg b left = specOut b (negBytes left) := by
  intro n
  induction n using Nat.strongRecOn with
  | _ n ih =>
    intro left hn hneg b hb
    unfold pushIntNeg negBytes
    rw [dif_neg (by omega), dif_neg (by omega)]
    simp only
    split
    · exact bind_spec (f := fun b1 => pure b1) (e2 := []) (pushU8_spec b hb _)
        (fun hi => (specOut_nil _ hi).symm)
    · rename_i hc
      exact bind_spec (f := fun b1 => pushIntNeg b1 (left / 256)) (e2 := negBytes (left / 256))
        (pushU8_spec b hb _) (fun hi =>
        ih (left / 256).natAbs (by omega) (left / 256) rfl (by omega) _ hi)

/-- minimal two's-complement content octets of an `i64` as the library writes them -/
def intContent (v : Int) : Bytes :=
  if v = 0 then [0] else if v > 0 then posBytes v.toNat else negBytes v

/-- complete INTEGER element -/
def encInt (v : Int) : Bytes :=
  tagLenBytes (UInt8.ofNat tagInt) (intContent v).length ++ intContent v

theorem pushInt_spec (b : Buf) (hb : b.Inv) (v : Int) : pushInt b v = specOut b (encInt v) := by
  unfold pushInt encInt intContent
  split
  · rename_i h0
    rw [push_spec b hb]
    simp [tagLenBytes, tagInt]
  · rename_i h0
    simp only
    split
    · rename_i hpos
      have h1 := pushIntPos_spec v.toNat b hb
      rw [h1]
      refine bind_spec rfl (fun hi => ?_)
      rw [usub_prepend]
      simp only [bind_ok]
      exact pushTagLen_spec _ hi _ _
    · rename_i hpos
      have h1 := pushIntNeg_spec _ v rfl (by omega) b hb
      rw [h1]
      refine bind_spec rfl (fun hi => ?_)
      rw [usub_prepend]
      simp only [bind_ok]
      exact pushTagLen_spec _ hi _ _

end GufoSnmp

namespace GufoSnmp
open Gen Outcome

/-! ## TLV, OID, NULL, varbind lists, PDUs, community messages -/

/-- identifier, minimal-form length (for lengths below 65536) and content -/
def tlvBytes (tag : UInt8) (content : Bytes) : Bytes := tagLenBytes tag content.length ++ content

theorem pushTagged_spec (b : Buf) (hb : b.Inv) (tag : UInt8) (data : Bytes) :
    b.pushTagged tag data = specOut b (tlvBytes tag data) := by
  unfold Buf.pushTagged tlvBytes
  exact bind_spec (f := fun b1 => b1.pushTagLen tag data.length) (push_spec b hb data)
    (fun hi => pushTagLen_spec _ hi tag _)

def encOid (oid : Bytes) : Bytes := tlvBytes (UInt8.ofNat tagObjectId) oid
def encNull : Bytes := [5, 0]
def encVarBind (oid : Bytes) : Bytes := tlvBytes 0x30 (encOid oid ++ encNull)
def encVars (vars : List Bytes) : Bytes := (vars.map encVarBind).flatten
def encVarList (vars : List Bytes) : Bytes := tlvBytes 0x30 (encVars vars)

theorem pushOid_spec (b : Buf) (hb : b.Inv) (oid : Bytes) : pushOid b oid = specOut b (encOid oid) := by
  unfold pushOid encOid tlvBytes
  exact bind_spec (f := fun b1 => b1.pushTagLen (UInt8.ofNat tagObjectId) oid.length) (push_spec b hb oid)
    (fun hi => pushTagLen_spec _ hi _ _)

theorem pushNull_spec (b : Buf) (hb : b.Inv) : pushNull b = specOut b encNull := push_spec b hb _

/-- a sequence of writes wrapped by `push_tag_len(tag, buf.len() - start)` -/
theorem wrap_spec {x : Outcome Buf} {b : Buf} {body : Bytes} (tag : UInt8) (h : x = specOut b body) :
    (x >>= fun b1 => usub b1.len b.len >>= fun n => b1.pushTagLen tag n) = specOut b (tlvBytes tag body) := by
  unfold tlvBytes
  refine bind_spec h (fun hi => ?_)
  rw [usub_prepend]
  simp only [bind_ok]
  exact pushTagLen_spec _ hi _ _

theorem pushVarBind_spec (b : Buf) (hb : b.Inv) (oid : Bytes) :
    (pushNull b >>= fun b1 => pushOid b1 oid >>= fun b2 => usub b2.len b.len >>= fun n => b2.pushTagLen 0x30 n)
      = specOut b (encVarBind oid) := by
  have h1 : (pushNull b >>= fun b1 => pushOid b1 oid) = specOut b (encOid oid ++ encNull) :=
    bind_spec (f := fun b1 => pushOid b1 oid) (pushNull_spec b hb) (fun hi => pushOid_spec _ hi oid)
  have := wrap_spec (b := b) 0x30 h1
  unfold encVarBind
  rw [← this]
  simp only [Outcome.bind_assoc]

theorem pushVarsRev_spec : ∀ (l : List Bytes) (b : Buf), b.Inv →
    pushVarsRev b l = specOut b (encVars l.reverse)
  | [], b, hb => by
    simp only [pushVarsRev, List.reverse_nil, encVars, List.map_nil, List.flatten_nil]
    exact (specOut_nil b hb).symm
  | oid :: more, b, hb => by
    unfold pushVarsRev
    have h1 := pushVarBind_spec b hb oid
    have h2 : (pushNull b >>= fun b1 => pushOid b1 oid >>= fun b2 => usub b2.len b.len >>= fun n =>
        b2.pushTagLen 0x30 n >>= fun b3 => pushVarsRev b3 more) = specOut b (encVars more.reverse ++ encVarBind oid) := by
      have := bind_spec (f := fun b3 => pushVarsRev b3 more) (e2 := encVars more.reverse) h1
        (fun hi => pushVarsRev_spec more _ hi)
      rw [← this]
      simp only [Outcome.bind_assoc]
    have he : encVars (oid :: more).reverse = encVars more.reverse ++ encVarBind oid := by
      simp [encVars, List.map_append, List.flatten_append]
    rw [he, ← h2]

theorem pushVarList_spec (b : Buf) (hb : b.Inv) (vars : List Bytes) :
    pushVarList b vars = specOut b (encVarList vars) := by
  unfold pushVarList encVarList
  have h1 := pushVarsRev_spec vars.reverse b hb
  rw [List.reverse_reverse] at h1
  exact wrap_spec 0x30 h1

def encGetBody (r : Int) (vars : List Bytes) : Bytes := encInt r ++ ([2, 1, 0, 2, 1, 0] ++ encVarList vars)
def encBulkBody (r nr mr : Int) (vars : List Bytes) : Bytes :=
  encInt r ++ (encInt nr ++ (encInt mr ++ encVarList vars))

theorem pushGet_spec (b : Buf) (hb : b.Inv) (r : Int) (vars : List Bytes) :
    pushGet b r vars = specOut b (encGetBody r vars) := by
  unfold pushGet encGetBody
  have h1 : (pushVarList b vars >>= fun b1 => b1.push [2, 1, 0, 2, 1, 0])
      = specOut b ([2, 1, 0, 2, 1, 0] ++ encVarList vars) :=
    bind_spec (f := fun b1 => b1.push [2, 1, 0, 2, 1, 0]) (pushVarList_spec b hb vars) (fun hi => push_spec _ hi _)
  have := bind_spec (f := fun b2 => pushInt b2 r) h1 (fun hi => pushInt_spec _ hi r)
  rw [← this]
  simp only [Outcome.bind_assoc]

theorem pushGetBulk_spec (b : Buf) (hb : b.Inv) (r nr mr : Int) (vars : List Bytes) :
    pushGetBulk b r nr mr vars = specOut b (encBulkBody r nr mr vars) := by
  unfold pushGetBulk encBulkBody
  have h1 : (pushVarList b vars >>= fun b1 => pushInt b1 mr) = specOut b (encInt mr ++ encVarList vars) :=
    bind_spec (f := fun b1 => pushInt b1 mr) (pushVarList_spec b hb vars) (fun hi => pushInt_spec _ hi mr)
  have h2 : ((pushVarList b vars >>= fun b1 => pushInt b1 mr) >>= fun b2 => pushInt b2 nr)
      = specOut b (encInt nr ++ (encInt mr ++ encVarList vars)) :=
    bind_spec (f := fun b2 => pushInt b2 nr) h1 (fun hi => pushInt_spec _ hi nr)
  have := bind_spec (f := fun b3 => pushInt b3 r) h2 (fun hi => pushInt_spec _ hi r)
  rw [← this]
  simp only [Outcome.bind_assoc]

/-- the request PDUs the library can encode -/
def encPdu : Pdu → Option Bytes
  | .getRequest r vars => some (tlvBytes (UInt8.ofNat ctxGet) (encGetBody r vars))
  | .getNextRequest r vars => some (tlvBytes (UInt8.ofNat ctxGetNext) (encGetBody r vars))
  | .getBulkRequest r nr mr vars => some (tlvBytes (UInt8.ofNat ctxGetBulk) (encBulkBody r nr mr vars))
  | _ => none

theorem pushPdu_spec (b : Buf) (hb : b.Inv) (pdu : Pdu) (enc : Bytes) (h : encPdu pdu = some enc) :
    pushPdu b pdu = specOut b enc := by
  unfold pushPdu
  cases pdu with
  | getRequest r vars =>
    simp only [encPdu, Option.some.injEq] at h; subst h; exact wrap_spec _ (pushGet_spec b hb _ _)
  | getNextRequest r vars =>
    simp only [encPdu, Option.some.injEq] at h; subst h; exact wrap_spec _ (pushGet_spec b hb _ _)
  | getBulkRequest r nr mr vars =>
    simp only [encPdu, Option.some.injEq] at h; subst h; exact wrap_spec _ (pushGetBulk_spec b hb _ _ _ _)
  | getResponse _ _ _ _ => simp [encPdu] at h
  | report _ => simp [encPdu] at h

theorem pushPdu_none (b : Buf) (pdu : Pdu) (h : encPdu pdu = none) : pushPdu b pdu = .err .NotImplemented := by
  cases pdu <;> simp [encPdu] at h <;> rfl

/-- the body of a v1 / v2c message -/
def encCommunityBody (version : Nat) (community pduBytes : Bytes) : Bytes :=
  [UInt8.ofNat tagInt, 1, UInt8.ofNat version] ++ (tlvBytes (UInt8.ofNat tagOctetString) community ++ pduBytes)

def encCommunityMsg (version : Nat) (m : CommunityMsg) : Option Bytes :=
  (encPdu m.pdu).map (fun p => tlvBytes 0x30 (encCommunityBody version m.community p))

/-- `push_ber` of a v1 / v2c message into an **empty** buffer (the outer length is `buf.len()`) -/
theorem pushCommunityMsg_spec (version : Nat) (b : Buf) (hb : b.cells = []) (m : CommunityMsg) (enc : Bytes)
    (h : encCommunityMsg version m = some enc) : pushCommunityMsg version b m = specOut b enc := by
  unfold encCommunityMsg at h
  cases hp : encPdu m.pdu with
  | none => rw [hp] at h; cases h
  | some p =>
    rw [hp] at h; simp only [Option.map_some, Option.some.injEq] at h; subst h
    have hinv : b.Inv := by simp [Buf.Inv, hb]
    unfold pushCommunityMsg
    have h1 : (pushPdu b m.pdu >>= fun b1 => b1.pushTagged (UInt8.ofNat tagOctetString) m.community)
        = specOut b (tlvBytes (UInt8.ofNat tagOctetString) m.community ++ p) :=
      bind_spec (f := fun b1 => b1.pushTagged (UInt8.ofNat tagOctetString) m.community)
        (pushPdu_spec b hinv m.pdu p hp) (fun hi => pushTagged_spec _ hi _ _)
    have h2 : ((pushPdu b m.pdu >>= fun b1 => b1.pushTagged (UInt8.ofNat tagOctetString) m.community)
        >>= fun b2 => b2.push [UInt8.ofNat tagInt, 1, UInt8.ofNat version])
        = specOut b (encCommunityBody version m.community p) :=
      bind_spec (f := fun b2 => b2.push [UInt8.ofNat tagInt, 1, UInt8.ofNat version]) h1
        (fun hi => push_spec _ hi _)
    have h3 := bind_spec (f := fun b3 => b3.pushTagLen 0x30 b3.len) (e2 := tagLenBytes 0x30 (encCommunityBody version m.community p).length)
      h2 (fun hi => by
        have : (b.prepend (encCommunityBody version m.community p)).len = (encCommunityBody version m.community p).length := by
          simp [Buf.len, Buf.prepend, hb]
        rw [this]; exact pushTagLen_spec _ hi _ _)
    unfold tlvBytes
    rw [← h3]
    simp only [Outcome.bind_assoc]

end GufoSnmp
