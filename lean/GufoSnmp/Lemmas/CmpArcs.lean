import GufoSnmp.Model.Ber
/-!
# `cmp_arcs` is a strict order: irreflexive and transitive
-/
namespace GufoSnmp
open Gen

theorem cmpBytes_gt_trans : ∀ (x y z : Bytes), cmpBytes x y = .gt → cmpBytes y z = .gt → cmpBytes x z = .gt
  | [], [], _, h, _ => by simp [cmpBytes] at h
  | [], _ :: _, _, h, _ => by simp [cmpBytes] at h
  | _ :: _, [], [], _, h => by simp [cmpBytes] at h
  | _ :: _, [], _ :: _, _, h => by simp [cmpBytes] at h
  | _ :: _, _ :: _, [], _, _ => by simp [cmpBytes]
  | a :: as, b :: bs, c :: cs, h1, h2 => by
    unfold cmpBytes at h1 h2 ⊢
    split at h1
    · cases h1
    · split at h1
      · split at h2
        · cases h2
        · split at h2
          · rw [if_neg (by omega), if_pos (by omega)]
          · rw [if_neg (by omega), if_pos (by omega)]
      · split at h2
        · cases h2
        · split at h2
          · rw [if_neg (by omega), if_pos (by omega)]
          · rw [if_neg (by omega), if_neg (by omega)]
            exact cmpBytes_gt_trans as bs cs h1 h2

theorem cmpBytes_eq : ∀ (x y : Bytes), cmpBytes x y = .eq → x = y
  | [], [], _ => rfl
  | [], _ :: _, h => by simp [cmpBytes] at h
  | _ :: _, [], h => by simp [cmpBytes] at h
  | a :: as, b :: bs, h => by
    unfold cmpBytes at h
    split at h
    · cases h
    · split at h
      · cases h
      · have : a = b := UInt8.toNat_inj.mp (by omega)
        rw [this, cmpBytes_eq as bs h]

theorem cmpBytes_refl : ∀ (x : Bytes), cmpBytes x x = .eq
  | [] => rfl
  | a :: as => by
    unfold cmpBytes
    rw [if_neg (by omega), if_neg (by omega)]
    exact cmpBytes_refl as

/-- comparison of two stripped sub-identifiers: by length, then bytewise -/
def chunkCmp (x y : Bytes) : Ordering := (compare x.length y.length).then (cmpBytes x y)

theorem chunkCmp_gt_iff (x y : Bytes) :
    chunkCmp x y = .gt ↔ x.length > y.length ∨ (x.length = y.length ∧ cmpBytes x y = .gt) := by
  unfold chunkCmp
  rcases Nat.lt_trichotomy x.length y.length with h | h | h
  · have : compare x.length y.length = .lt := Nat.compare_eq_lt.mpr h
    rw [this]; simp [Ordering.then]; omega
  · have : compare x.length y.length = .eq := Nat.compare_eq_eq.mpr h
    rw [this]; simp [Ordering.then, h]
  · have : compare x.length y.length = .gt := Nat.compare_eq_gt.mpr h
    rw [this]; simp [Ordering.then]; omega

theorem chunkCmp_eq (x y : Bytes) (h : chunkCmp x y = .eq) : x = y := by
  unfold chunkCmp at h
  rcases Nat.lt_trichotomy x.length y.length with hl | hl | hl
  · have : compare x.length y.length = .lt := Nat.compare_eq_lt.mpr hl
    rw [this] at h; simp [Ordering.then] at h
  · have : compare x.length y.length = .eq := Nat.compare_eq_eq.mpr hl
    rw [this] at h; simp only [Ordering.then] at h
    exact cmpBytes_eq x y h
  · have : compare x.length y.length = .gt := Nat.compare_eq_gt.mpr hl
    rw [this] at h; simp [Ordering.then] at h

theorem chunkCmp_refl (x : Bytes) : chunkCmp x x = .eq := by
  unfold chunkCmp
  have : compare x.length x.length = .eq := Nat.compare_eq_eq.mpr rfl
  rw [this]; simp only [Ordering.then]; exact cmpBytes_refl x

theorem chunkCmp_gt_trans (x y z : Bytes) (h1 : chunkCmp x y = .gt) (h2 : chunkCmp y z = .gt) :
    chunkCmp x z = .gt := by
  rw [chunkCmp_gt_iff] at *
  rcases h1 with h1 | ⟨h1, c1⟩ <;> rcases h2 with h2 | ⟨h2, c2⟩
  · left; omega
  · left; omega
  · left; omega
  · right; exact ⟨by omega, cmpBytes_gt_trans x y z c1 c2⟩

/-- unfolding of `cmpArcs` on two non-empty inputs -/
theorem cmpArcs_cons (a0 : UInt8) (as : Bytes) (b0 : UInt8) (bs : Bytes) :
    cmpArcs (a0 :: as) (b0 :: bs) =
      (if chunkCmp (splitArc (a0 :: as)).1 (splitArc (b0 :: bs)).1 ≠ .eq then
        chunkCmp (splitArc (a0 :: as)).1 (splitArc (b0 :: bs)).1
       else cmpArcs (splitArc (a0 :: as)).2 (splitArc (b0 :: bs)).2) := by
  rw [cmpArcs]
  rfl

theorem splitArc_rest_lt (d : Bytes) (h : d ≠ []) : (splitArc d).2.length < d.length := by
  have := splitArcRaw_rest_length d h
  simpa [splitArc] using this

theorem cmpArcs_refl : ∀ (n : Nat) (a : Bytes), a.length = n → cmpArcs a a = .eq := by
  intro n
  induction n using Nat.strongRecOn with
  | _ n ih =>
    intro a hn
    cases a with
    | nil => rw [cmpArcs]
    | cons a0 as =>
      rw [cmpArcs_cons, chunkCmp_refl]
      simp only [ne_eq, not_true_eq_false, if_false]
      have := splitArc_rest_lt (a0 :: as) (by simp)
      exact ih _ (by omega) _ rfl

theorem cmpArcs_nil_left (b : Bytes) : cmpArcs [] b ≠ .gt := by
  cases b <;> rw [cmpArcs] <;> simp

theorem cmpArcs_gt_trans : ∀ (n : Nat) (a b c : Bytes), a.length + b.length + c.length = n →
    cmpArcs a b = .gt → cmpArcs b c = .gt → cmpArcs a c = .gt := by
  intro n
  induction n using Nat.strongRecOn with
  | _ n ih =>
    intro a b c hn h1 h2
    cases b with
    | nil => exact absurd h2 (cmpArcs_nil_left c)
    | cons b0 bs =>
      cases a with
      | nil => exact absurd h1 (cmpArcs_nil_left _)
      | cons a0 as =>
        cases c with
        | nil => rw [cmpArcs]
        | cons c0 cs =>
          rw [cmpArcs_cons] at h1 h2 ⊢
          have la := splitArc_rest_lt (a0 :: as) (by simp)
          have lb := splitArc_rest_lt (b0 :: bs) (by simp)
          have lc := splitArc_rest_lt (c0 :: cs) (by simp)
          by_cases e1 : chunkCmp (splitArc (a0 :: as)).1 (splitArc (b0 :: bs)).1 = .eq
          · rw [if_neg (by simpa using e1)] at h1
            have hab := chunkCmp_eq _ _ e1
            by_cases e2 : chunkCmp (splitArc (b0 :: bs)).1 (splitArc (c0 :: cs)).1 = .eq
            · rw [if_neg (by simpa using e2)] at h2
              have hbc := chunkCmp_eq _ _ e2
              have e3 : chunkCmp (splitArc (a0 :: as)).1 (splitArc (c0 :: cs)).1 = .eq := by
                rw [hab, hbc]; exact chunkCmp_refl _
              rw [if_neg (by simpa using e3)]
              exact ih _ (by simp only [List.length_cons] at *; omega) _ _ _ rfl h1 h2
            · rw [if_pos (by simpa using e2)] at h2
              rw [hab, if_pos (by rw [h2]; decide)]
              exact h2
          · rw [if_pos (by simpa using e1)] at h1
            by_cases e2 : chunkCmp (splitArc (b0 :: bs)).1 (splitArc (c0 :: cs)).1 = .eq
            · have hbc := chunkCmp_eq _ _ e2
              rw [← hbc, if_pos (by rw [h1]; decide)]
              exact h1
            · rw [if_pos (by simpa using e2)] at h2
              have := chunkCmp_gt_trans _ _ _ h1 h2
              rw [if_pos (by rw [this]; decide)]
              exact this

/-- **irreflexive** and **transitive** -/
theorem cmpArcs_irrefl (a : Bytes) : cmpArcs a a ≠ .gt := by
  rw [cmpArcs_refl _ a rfl]; decide

theorem cmpArcs_trans (a b c : Bytes) (h1 : cmpArcs a b = .gt) (h2 : cmpArcs b c = .gt) :
    cmpArcs a c = .gt := cmpArcs_gt_trans _ a b c rfl h1 h2

end GufoSnmp
