import GufoSnmp.Lemmas.EncSpec
/-!
# INTEGER: the decoder computes the two's-complement value; encoder and decoder are inverse
-/
namespace GufoSnmp
open Gen Outcome

/-- plain (unwrapped) accumulation -/
def accZ (init : Int) (bs : Bytes) : Int := bs.foldl (fun acc x => acc * 256 + (x.toNat : Int)) init

/-- two's-complement value of a non-empty big-endian byte string -/
def twos (bs : Bytes) : Int :=
  match bs with
  | [] => 0
  | b0 :: _ => accZ (if b0.toNat < 128 then 0 else -1) bs

theorem u8_lt (x : UInt8) : x.toNat < 256 := x.toNat_lt

/-- the wrapping fold equals the plain one while the running value stays inside a bound `M`
that, multiplied by 256 for every remaining octet, does not exceed 2^63 -/
theorem fold_wrap_eq : ∀ (bs : Bytes) (acc : Int) (M : Nat), -(M : Int) ≤ acc → acc < M →
    M * 256 ^ bs.length ≤ 2 ^ 63 →
    bs.foldl (fun acc x => wrapI64 (acc * 256 + (x.toNat : Int))) acc = accZ acc bs
  | [], _, _, _, _, _ => rfl
  | x :: rest, acc, M, h1, h2, hM => by
    simp only [List.foldl_cons, accZ]
    have hx := u8_lt x
    have hpow : M * 256 * 256 ^ rest.length ≤ 2 ^ 63 := by
      rw [List.length_cons, Nat.pow_succ] at hM
      rw [Nat.mul_assoc, Nat.mul_comm 256]; exact hM
    have hpos : 1 ≤ 256 ^ rest.length := Nat.pow_pos (by omega)
    have hM256 : M * 256 ≤ 2 ^ 63 := by
      calc M * 256 = M * 256 * 1 := by omega
        _ ≤ M * 256 * 256 ^ rest.length := Nat.mul_le_mul_left _ hpos
        _ ≤ 2 ^ 63 := hpow
    have hw : wrapI64 (acc * 256 + (x.toNat : Int)) = acc * 256 + (x.toNat : Int) := by
      apply wrapI64_id <;> omega
    rw [hw]
    exact fold_wrap_eq rest _ (M * 256) (by omega) (by omega) hpow

/-- **the decoder computes the two's-complement value** of 1..8 content octets -/
theorem decodeInt_twos (i : Bytes) (h : Header) (h1 : 1 ≤ h.length) (h8 : h.length ≤ 8)
    (hl : h.length ≤ i.length) : decodeInt i h = .ok (twos (i.take h.length)) := by
  unfold decodeInt
  rw [if_neg (by omega), if_neg (by omega)]
  cases i with
  | nil => simp at hl; omega
  | cons b0 rest =>
    rw [idx_ok (by simp)]
    simp only [bind_ok, List.getElem_cons_zero, pure_eq]
    congr 1
    obtain ⟨n, hn⟩ : ∃ n, h.length = n + 1 := ⟨h.length - 1, by omega⟩
    rw [hn, List.take_succ_cons]
    simp only [twos, List.foldl_cons, accZ]
    have hb := u8_lt b0
    have hlen : (rest.take n).length ≤ 7 := by simp [List.length_take]; omega
    have hp : 128 * 256 ^ (rest.take n).length ≤ 2 ^ 63 := by
      calc 128 * 256 ^ (rest.take n).length ≤ 128 * 256 ^ 7 :=
            Nat.mul_le_mul_left _ (Nat.pow_le_pow_right (by omega) hlen)
        _ = 2 ^ 63 := by decide
    split
    · rename_i hs
      have hw : wrapI64 (0 * 256 + (b0.toNat : Int)) = 0 * 256 + (b0.toNat : Int) := by
        apply wrapI64_id <;> omega
      rw [hw]
      exact fold_wrap_eq _ _ 128 (by omega) (by omega) hp
    · rename_i hs
      have hw : wrapI64 (-1 * 256 + (b0.toNat : Int)) = -1 * 256 + (b0.toNat : Int) := by
        apply wrapI64_id <;> omega
      rw [hw]
      exact fold_wrap_eq _ _ 128 (by omega) (by omega) hp

theorem accZ_append (init : Int) (bs : Bytes) (x : UInt8) :
    accZ init (bs ++ [x]) = accZ init bs * 256 + (x.toNat : Int) := by
  simp [accZ, List.foldl_append]

theorem twos_append (bs : Bytes) (x : UInt8) (hne : bs ≠ []) :
    twos (bs ++ [x]) = twos bs * 256 + (x.toNat : Int) := by
  cases bs with
  | nil => exact absurd rfl hne
  | cons b0 rest =>
    simp only [twos, List.cons_append]
    exact accZ_append _ (b0 :: rest) x

theorem ofNat_toNat {n : Nat} (h : n < 256) : (UInt8.ofNat n).toNat = n := by
  simp [UInt8.toNat_ofNat, Nat.mod_eq_of_lt h]

theorem posBytes_ne_nil (n : Nat) : posBytes n ≠ [] := by
  unfold posBytes
  split
  · split <;> simp
  · simp

/-- the positive encoder writes a two's-complement representation of its argument whose
first octet has the sign bit clear -/
theorem twos_posBytes : ∀ (n : Nat), twos (posBytes n) = n ∧ ∃ b r, posBytes n = b :: r ∧ b.toNat < 128 := by
  intro n
  induction n using Nat.strongRecOn with
  | _ n ih =>
    unfold posBytes
    split
    · rename_i hlt
      split
      · rename_i hge
        refine ⟨?_, 0, _, rfl, by decide⟩
        simp only [twos, accZ, List.foldl_cons, List.foldl_nil]
        rw [ofNat_toNat (by omega)]
        have : (0 : UInt8).toNat = 0 := rfl
        simp only [this]; omega
      · rename_i hge
        refine ⟨?_, _, _, rfl, by rw [ofNat_toNat (by omega)]; omega⟩
        simp only [twos, accZ, List.foldl_cons, List.foldl_nil]
        rw [ofNat_toNat (by omega)]
        rw [if_pos (by omega)]; omega
    · rename_i hge
      obtain ⟨hv, b, r, hbr, hb⟩ := ih (n / 256) (by omega)
      refine ⟨?_, b, r ++ [UInt8.ofNat (n % 256)], by rw [hbr]; rfl, hb⟩
      rw [twos_append _ _ (posBytes_ne_nil _), hv, ofNat_toNat (by omega)]
      omega

theorem negBytes_ne_nil (v : Int) (hv : v < 0) : negBytes v ≠ [] := by
  unfold negBytes
  rw [dif_neg (by omega)]
  split <;> simp

theorem twos_negBytes : ∀ (n : Nat) (v : Int), v.natAbs = n → v < 0 →
    twos (negBytes v) = v ∧ ∃ b r, negBytes v = b :: r ∧ 128 ≤ b.toNat := by
  intro n
  induction n using Nat.strongRecOn with
  | _ n ih =>
    intro v hn hv
    unfold negBytes
    rw [dif_neg (by omega)]
    have hm0 : 0 ≤ v % 256 := Int.emod_nonneg v (by omega)
    have hm1 : v % 256 < 256 := Int.emod_lt_of_pos v (by omega)
    have hto : ((v % 256).toNat : Int) = v % 256 := Int.toNat_of_nonneg hm0
    have hlt : (v % 256).toNat < 256 := by omega
    split
    · rename_i hc
      refine ⟨?_, _, _, rfl, by rw [ofNat_toNat hlt]; omega⟩
      simp only [twos, accZ, List.foldl_cons, List.foldl_nil]
      rw [ofNat_toNat hlt]
      rw [if_neg (by omega)]
      omega
    · rename_i hc
      obtain ⟨hv', b, r, hbr, hb⟩ := ih (v / 256).natAbs (by omega) (v / 256) rfl (by omega)
      refine ⟨?_, b, r ++ [UInt8.ofNat (v % 256).toNat], by rw [hbr]; rfl, hb⟩
      rw [twos_append _ _ (negBytes_ne_nil _ (by omega)), hv', ofNat_toNat hlt]
      omega

theorem posBytes_length : ∀ (n k : Nat), n < 128 * 256 ^ k → (posBytes n).length ≤ k + 1 := by
  intro n
  induction n using Nat.strongRecOn with
  | _ n ih =>
    intro k hk
    unfold posBytes
    split
    · split
      · rename_i hge
        cases k with
        | zero => simp at hk; omega
        | succ k => simp
      · simp
    · rename_i hge
      cases k with
      | zero => simp at hk; omega
      | succ k =>
        rw [Nat.pow_succ] at hk
        have := ih (n / 256) (by omega) k (by omega)
        simp only [List.length_append, List.length_singleton]; omega

theorem negBytes_length : ∀ (m : Nat) (v : Int) (k : Nat), v.natAbs = m → v < 0 →
    -(128 * 256 ^ k : Int) ≤ v → (negBytes v).length ≤ k + 1 := by
  intro m
  induction m using Nat.strongRecOn with
  | _ m ih =>
    intro v k hm hv hk
    unfold negBytes
    rw [dif_neg (by omega)]
    split
    · simp
    · rename_i hc
      cases k with
      | zero =>
        have h0 : (256 : Int) ^ 0 = 1 := rfl
        rw [h0] at hk
        exfalso; omega
      | succ k =>
        have hp : ((256 : Int) ^ (k + 1)) = 256 ^ k * 256 := by rw [Int.pow_succ]
        rw [hp] at hk
        have := ih (v / 256).natAbs (by omega) (v / 256) k rfl (by omega) (by omega)
        simp only [List.length_append, List.length_singleton]; omega

/-- the content the library writes for an `i64` has 1..8 octets and denotes the value -/
theorem intContent_spec (v : Int) (h1 : -(2 ^ 63) ≤ v) (h2 : v < 2 ^ 63) :
    twos (intContent v) = v ∧ 1 ≤ (intContent v).length ∧ (intContent v).length ≤ 8 := by
  unfold intContent
  split
  · rename_i h0; subst h0; exact ⟨by decide, by simp, by simp⟩
  · split
    · rename_i hpos
      obtain ⟨hv, b, r, hbr, _⟩ := twos_posBytes v.toNat
      refine ⟨by rw [hv]; omega, by rw [hbr]; simp, ?_⟩
      exact posBytes_length v.toNat 7 (by
        have : (128 * 256 ^ 7 : Nat) = 2 ^ 63 := by decide
        omega)
    · rename_i hpos
      obtain ⟨hv, b, r, hbr, _⟩ := twos_negBytes _ v rfl (by omega)
      refine ⟨hv, by rw [hbr]; simp, ?_⟩
      exact negBytes_length _ v 7 rfl (by omega) (by
        have : (128 * 256 ^ 7 : Int) = 2 ^ 63 := by decide
        omega)

end GufoSnmp
