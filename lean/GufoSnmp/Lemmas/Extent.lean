import GufoSnmp.Lemmas.Total
/-!
# Extent lemmas: decoding reads exactly the octets the header declares
-/
namespace GufoSnmp
open Gen Outcome

theorem tagLoop_append : ∀ (i : Bytes) (n t : Nat) (r s : Bytes),
    tagLoop i n = .ok (t, r) → tagLoop (i ++ s) n = .ok (t, r ++ s)
  | [], _, _, _, _, h => by simp [tagLoop] at h
  | c :: rest, n, t, r, s, h => by
    simp only [List.cons_append]
    unfold tagLoop at h ⊢
    split
    · rename_i hc; rw [if_pos hc] at h; cases h; rfl
    · rename_i hc; rw [if_neg hc] at h
      exact tagLoop_append rest _ t r s h

theorem lenLoop_append : ∀ (k : Nat) (i : Bytes) (ln l : Nat) (r s : Bytes),
    lenLoop k i ln = .ok (l, r) → lenLoop k (i ++ s) ln = .ok (l, r ++ s)
  | 0, i, ln, l, r, s, h => by
    simp only [lenLoop] at h ⊢; cases h; rfl
  | _ + 1, [], _, _, _, _, h => by simp [lenLoop] at h
  | k + 1, b :: rest, ln, l, r, s, h => by
    simp only [List.cons_append]
    unfold lenLoop at h ⊢
    exact lenLoop_append k rest _ l r s h

/-- appending bytes after an element does not change its header; the tail grows by them -/
theorem parseHeader_append {x : Bytes} {h : Header} {tail : Bytes} (s : Bytes)
    (hp : parseHeader x = .ok (h, tail)) : parseHeader (x ++ s) = .ok (h, tail ++ s) := by
  unfold parseHeader at hp
  split at hp
  · cases hp
  · cases hp
  · rename_i id r1 hne
    obtain ⟨⟨tag, r2⟩, h1, hp⟩ := bind_eq_ok hp
    simp only at hp
    split at hp
    · cases hp
    · rename_i n r3
      obtain ⟨⟨l, r4⟩, h2, hp⟩ := bind_eq_ok hp
      simp only at hp
      split at hp
      · cases hp
      · rename_i hlen
        cases hp
        have hx : (id :: r1) ++ s = id :: (r1 ++ s) := rfl
        rw [hx]
        unfold parseHeader
        have hne' : ∀ (a : UInt8), id :: (r1 ++ s) = [a] → False := by
          intro a ha
          cases r1 with
          | nil => exact hne rfl
          | cons _ _ => simp at ha
        split
        · rename_i heq; cases heq
        · rename_i a heq; exact absurd heq (hne' a)
        · rename_i id' r1' _ heq
          cases heq
          have h1' : (if id.toNat % 32 = 31 then tagLoop (r1 ++ s) 0 else Outcome.ok (id.toNat % 32, r1 ++ s))
              = .ok (tag, n :: r3 ++ s) := by
            split at h1
            · rename_i hc; rw [if_pos hc]; exact tagLoop_append _ _ _ _ s h1
            · rename_i hc; rw [if_neg hc]; cases h1; rfl
          rw [h1']
          simp only [bind_ok, List.cons_append]
          have h2' : (if n.toNat < 128 then Outcome.ok (n.toNat, r3 ++ s) else lenLoop (n.toNat % 128) (r3 ++ s) 0)
              = .ok (l, tail ++ s) := by
            split at h2
            · rename_i hc; rw [if_pos hc]; cases h2; rfl
            · rename_i hc; rw [if_neg hc]; exact lenLoop_append _ _ _ _ _ s h2
          rw [h2']
          simp only [bind_ok]
          rw [if_neg (by simp only [List.length_append]; omega)]

/-- a decoder is local when it only looks at the declared content -/
def Decoder.Local {α} (d : Decoder α) : Prop :=
  ∀ (tail s : Bytes) (h : Header), h.length ≤ tail.length → d.decode (tail ++ s) h = d.decode tail h

theorem take_append_le {tail s : Bytes} {n : Nat} (h : n ≤ tail.length) :
    (tail ++ s).take n = tail.take n := List.take_append_of_le_length h

theorem idx_append {tail s : Bytes} {k : Nat} (h : k < tail.length) : idx (tail ++ s) k = idx tail k := by
  unfold idx
  rw [List.getElem?_append_left h]

theorem sliceTo_append {tail s : Bytes} {n : Nat} (h : n ≤ tail.length) :
    sliceTo (tail ++ s) n = sliceTo tail n := by
  unfold sliceTo
  rw [if_pos (by simp only [List.length_append]; omega), if_pos h, take_append_le h]

theorem decodeInt_local (tail s : Bytes) (h : Header) (hl : h.length ≤ tail.length) :
    decodeInt (tail ++ s) h = decodeInt tail h := by
  unfold decodeInt
  split
  · rfl
  · split
    · rfl
    · rw [idx_append (by omega), take_append_le hl]

theorem decodeUnsigned_local (bits : Nat) (tail s : Bytes) (h : Header) (hl : h.length ≤ tail.length) :
    decodeUnsigned bits (tail ++ s) h = decodeUnsigned bits tail h := by
  unfold decodeUnsigned; rw [take_append_le hl]

theorem decodeBool_local (tail s : Bytes) (h : Header) (hl : h.length ≤ tail.length) :
    decodeBool (tail ++ s) h = decodeBool tail h := by
  unfold decodeBool
  split
  · rfl
  · rw [idx_append (by omega)]

theorem decodeSlice_local (tail s : Bytes) (h : Header) (hl : h.length ≤ tail.length) :
    decodeSlice (tail ++ s) h = decodeSlice tail h := sliceTo_append hl

theorem decodeIpAddress_local (tail s : Bytes) (h : Header) (hl : h.length ≤ tail.length) :
    decodeIpAddress (tail ++ s) h = decodeIpAddress tail h := by
  unfold decodeIpAddress
  split
  · rfl
  · rw [idx_append (by omega), idx_append (by omega), idx_append (by omega), idx_append (by omega)]

theorem decodeReal_local (tail s : Bytes) (h : Header) (hl : h.length ≤ tail.length) :
    decodeReal (tail ++ s) h = decodeReal tail h := by
  unfold decodeReal
  split
  · rfl
  · rw [sliceTo_append hl]

theorem intDecoder_local : intDecoder.Local := fun t s h hl => decodeInt_local t s h hl
theorem boolDecoder_local : boolDecoder.Local := fun t s h hl => decodeBool_local t s h hl
theorem ipAddressDecoder_local : ipAddressDecoder.Local := fun t s h hl => decodeIpAddress_local t s h hl
theorem realDecoder_local : realDecoder.Local := fun t s h hl => decodeReal_local t s h hl
theorem octetsDecoder_local : octetsDecoder.Local := fun t s h hl => decodeSlice_local t s h hl
theorem oidDecoder_local : oidDecoder.Local := fun t s h hl => decodeSlice_local t s h hl
theorem objDescDecoder_local : objDescDecoder.Local := fun t s h hl => decodeSlice_local t s h hl
theorem opaqueDecoder_local : opaqueDecoder.Local := fun t s h hl => decodeSlice_local t s h hl
theorem relOidDecoder_local : relOidDecoder.Local := fun t s h hl => decodeSlice_local t s h hl
theorem sequenceDecoder_local : sequenceDecoder.Local := fun t s h hl => decodeSlice_local t s h hl
theorem nullDecoder_local : nullDecoder.Local := fun _ _ _ _ => rfl
theorem counter32Decoder_local : counter32Decoder.Local := fun t s h hl => decodeUnsigned_local 32 t s h hl
theorem gauge32Decoder_local : gauge32Decoder.Local := fun t s h hl => decodeUnsigned_local 32 t s h hl
theorem timeticksDecoder_local : timeticksDecoder.Local := fun t s h hl => decodeUnsigned_local 32 t s h hl
theorem uinteger32Decoder_local : uinteger32Decoder.Local := fun t s h hl => decodeUnsigned_local 32 t s h hl
theorem counter64Decoder_local : counter64Decoder.Local := fun t s h hl => decodeUnsigned_local 64 t s h hl

theorem sliceFrom_append {tail s : Bytes} {n : Nat} (h : n ≤ tail.length) :
    sliceFrom (tail ++ s) n = .ok (tail.drop n ++ s) := by
  unfold sliceFrom
  rw [if_pos (by simp only [List.length_append]; omega), List.drop_append_of_le_length h]

/-- generic `from_ber`: bytes after the element do not affect the value and are returned as
the remaining input -/
theorem fromBer_append {α} (d : Decoder α) (hd : d.Local) {x : Bytes} {v : α} {rest : Bytes} (s : Bytes)
    (h : fromBer d x = .ok (v, rest)) : fromBer d (x ++ s) = .ok (v, rest ++ s) := by
  unfold fromBer at h ⊢
  split at h
  · cases h
  · rename_i hlen
    rw [if_neg (by simp only [List.length_append]; omega)]
    obtain ⟨⟨hdr, tail⟩, hp, h⟩ := bind_eq_ok h
    obtain ⟨hl, _⟩ := parseHeader_ok hp
    rw [parseHeader_append s hp]
    simp only [bind_ok] at h ⊢
    split at h
    · cases h
    · rename_i hc
      rw [if_neg hc]
      obtain ⟨r, hr, h⟩ := bind_eq_ok h
      obtain ⟨v', hv, h⟩ := bind_eq_ok h
      cases h
      rw [sliceFrom_ok hl] at hr; cases hr
      rw [sliceFrom_append hl, hd tail s hdr hl, hv]
      rfl

theorem decodeValue_local (tail s : Bytes) (h : Header) (hl : h.length ≤ tail.length) :
    decodeValue (tail ++ s) h = decodeValue tail h := by
  unfold decodeValue
  rw [decodeBool_local tail s h hl, decodeInt_local tail s h hl, decodeSlice_local tail s h hl,
    decodeReal_local tail s h hl, decodeIpAddress_local tail s h hl,
    decodeUnsigned_local 32 tail s h hl, decodeUnsigned_local 64 tail s h hl]
  rfl

theorem valueFromBer_append {x : Bytes} {v : Value} {rest : Bytes} (s : Bytes)
    (h : valueFromBer x = .ok (v, rest)) : valueFromBer (x ++ s) = .ok (v, rest ++ s) := by
  unfold valueFromBer at h ⊢
  obtain ⟨⟨hdr, tail⟩, hp, h⟩ := bind_eq_ok h
  obtain ⟨hl, _⟩ := parseHeader_ok hp
  rw [parseHeader_append s hp]
  simp only [bind_ok] at h ⊢
  obtain ⟨v', hv, h⟩ := bind_eq_ok h
  obtain ⟨r, hr, h⟩ := bind_eq_ok h
  cases h
  rw [sliceFrom_ok hl] at hr; cases hr
  rw [decodeValue_local tail s hdr hl, hv, sliceFrom_append hl]
  rfl

end GufoSnmp

namespace GufoSnmp
open Gen Outcome

/-! ## the header depends on the header octets only -/

theorem tagLoop_prefix : ∀ (i : Bytes) (n t : Nat) (r : Bytes), tagLoop i n = .ok (t, r) →
    ∃ a, i = a ++ r ∧ a ≠ [] ∧ ∀ r', tagLoop (a ++ r') n = .ok (t, r')
  | [], _, _, _, h => by simp [tagLoop] at h
  | c :: rest, n, t, r, h => by
    unfold tagLoop at h
    split at h
    · rename_i hc
      cases h
      refine ⟨[c], rfl, by simp, fun r' => ?_⟩
      simp only [List.cons_append, List.nil_append]
      unfold tagLoop; rw [if_pos hc]
    · rename_i hc
      obtain ⟨a, ha, _, hall⟩ := tagLoop_prefix rest _ t r h
      refine ⟨c :: a, by rw [ha]; rfl, by simp, fun r' => ?_⟩
      simp only [List.cons_append]
      unfold tagLoop; rw [if_neg hc]; exact hall r'

theorem lenLoop_prefix : ∀ (k : Nat) (i : Bytes) (ln l : Nat) (r : Bytes), lenLoop k i ln = .ok (l, r) →
    ∃ a, i = a ++ r ∧ ∀ r', lenLoop k (a ++ r') ln = .ok (l, r')
  | 0, i, ln, l, r, h => by
    simp only [lenLoop] at h; cases h
    exact ⟨[], rfl, fun r' => by simp [lenLoop]⟩
  | _ + 1, [], _, _, _, h => by simp [lenLoop] at h
  | k + 1, b :: rest, ln, l, r, h => by
    unfold lenLoop at h
    obtain ⟨a, ha, hall⟩ := lenLoop_prefix k rest _ l r h
    refine ⟨b :: a, by rw [ha]; rfl, fun r' => ?_⟩
    simp only [List.cons_append]
    unfold lenLoop; exact hall r'

/-- **header locality**: a successful parse splits the input into header octets `hb` and the
tail; on any other tail the same header octets give the same header when the declared content
is available, and `Incomplete` when it is not. -/
theorem parseHeader_prefix {x : Bytes} {h : Header} {tail : Bytes} (hp : parseHeader x = .ok (h, tail)) :
    ∃ hb, x = hb ++ tail ∧ 2 ≤ hb.length ∧ ∀ t', parseHeader (hb ++ t') =
      if t'.length < h.length then .err .Incomplete else .ok (h, t') := by
  unfold parseHeader at hp
  split at hp
  · cases hp
  · cases hp
  · rename_i id r1 hne
    obtain ⟨⟨tag, r2⟩, h1, hp⟩ := bind_eq_ok hp
    simp only at hp
    split at hp
    · cases hp
    · rename_i n r3
      obtain ⟨⟨l, r4⟩, h2, hp⟩ := bind_eq_ok hp
      simp only at hp
      split at hp
      · cases hp
      · rename_i hlen
        cases hp
        -- consumed octets of the tag part
        have hA : ∃ a, r1 = a ++ (n :: r3) ∧ ∀ r', (if id.toNat % 32 = 31 then tagLoop (a ++ r') 0
            else Outcome.ok (id.toNat % 32, a ++ r')) = .ok (tag, r') := by
          split at h1
          · rename_i hc
            obtain ⟨a, ha, _, hall⟩ := tagLoop_prefix _ _ _ _ h1
            exact ⟨a, ha, fun r' => by rw [if_pos hc]; exact hall r'⟩
          · rename_i hc
            cases h1
            exact ⟨[], rfl, fun r' => by rw [if_neg hc]; rfl⟩
        have hB : ∃ b, r3 = b ++ tail ∧ ∀ r', (if n.toNat < 128 then Outcome.ok (n.toNat, b ++ r')
            else lenLoop (n.toNat % 128) (b ++ r') 0) = .ok (l, r') := by
          split at h2
          · rename_i hc
            cases h2
            exact ⟨[], rfl, fun r' => by rw [if_pos hc]; rfl⟩
          · rename_i hc
            obtain ⟨b, hb, hall⟩ := lenLoop_prefix _ _ _ _ _ h2
            exact ⟨b, hb, fun r' => by rw [if_neg hc]; exact hall r'⟩
        obtain ⟨a, ha, hAll⟩ := hA
        obtain ⟨b, hb, hBll⟩ := hB
        refine ⟨id :: (a ++ (n :: b)), ?_, ?_, ?_⟩
        · rw [ha, hb]; simp
        · simp only [List.length_cons, List.length_append]; omega
        · intro t'
          have hx : (id :: (a ++ n :: b)) ++ t' = id :: (a ++ (n :: (b ++ t'))) := by simp
          rw [hx]
          unfold parseHeader
          split
          · rename_i heq; cases heq
          · rename_i a0 heq
            cases a with
            | nil => simp at heq
            | cons _ _ => simp at heq
          · rename_i id' r1' _ heq
            cases heq
            rw [hAll]
            simp only [bind_ok]
            rw [hBll]
            simp only [bind_ok]

end GufoSnmp
