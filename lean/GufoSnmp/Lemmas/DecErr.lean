import GufoSnmp.Lemmas.Total
/-!
# Every error the receive-path decoders can return is of the `SnmpDecodeError` class

`DE x`: if `x` is an error, its Python class (generated table `pyClass`, from `src/error.rs`) is
`SnmpDecodeError`. Mirrors `Lemmas/Total.lean` function by function.
-/
namespace GufoSnmp
open Gen Outcome

/-- if `x` fails, it fails with an error that Python sees as `SnmpDecodeError` -/
def DE {α} (x : Outcome α) : Prop := ∀ e, x = .err e → pyClass e = .SnmpDecodeError

theorem de_ok {α} (a : α) : DE (Outcome.ok a) := fun _ h => by cases h
theorem de_panic {α} (w : String) : DE (Outcome.panic w : Outcome α) := fun _ h => by cases h
theorem de_err {α} (e : SnmpError) (h : pyClass e = .SnmpDecodeError) : DE (Outcome.err e : Outcome α) :=
  fun _ he => by cases he; exact h

theorem de_bind {α β} {x : Outcome α} {f : α → Outcome β}
    (hx : DE x) (hf : ∀ a, x = .ok a → DE (f a)) : DE (x >>= f) := by
  cases x with
  | ok a => exact hf a rfl
  | err e => intro e' h; cases h; exact hx e rfl
  | panic w => intro e' h; cases h

macro "de_triv" : tactic =>
  `(tactic| first
    | exact de_ok _
    | exact de_panic _
    | exact de_err _ (by decide)
    | (intro e he; cases he; decide)
    | (intro e he; cases he))

def Decoder.DErr {α} (d : Decoder α) : Prop :=
  ∀ (tail : Bytes) (h : Header), h.length ≤ tail.length → DE (d.decode tail h)

theorem tagLoop_de : ∀ (i : Bytes) (n : Nat), DE (tagLoop i n)
  | [], _ => by unfold tagLoop; de_triv
  | t :: rest, n => by
    unfold tagLoop
    split
    · de_triv
    · exact tagLoop_de rest _


theorem lenLoop_de : ∀ (k : Nat) (i : Bytes) (ln : Nat), DE (lenLoop k i ln)
  | 0, _, _ => by unfold lenLoop; de_triv
  | _ + 1, [], _ => by unfold lenLoop; de_triv
  | k + 1, b :: rest, ln => by
    unfold lenLoop
    exact lenLoop_de k rest _


theorem parseHeader_de (i : Bytes) : DE (parseHeader i) := by
  unfold parseHeader
  split
  · de_triv
  · de_triv
  · apply de_bind
    · split
      · exact tagLoop_de _ _
      · de_triv
    · intro ⟨tag, r2⟩ _
      simp only
      split
      · de_triv
      · apply de_bind
        · split
          · de_triv
          · exact lenLoop_de _ _ _
        · intro ⟨l, r4⟩ _
          simp only
          split <;> de_triv


theorem idx_de {i : Bytes} {k : Nat} (h : k < i.length) : DE (idx i k) := by
  rw [idx_ok h]; de_triv


theorem sliceTo_de {i : Bytes} {n : Nat} (h : n ≤ i.length) : DE (sliceTo i n) := by
  rw [sliceTo_ok h]; de_triv


theorem sliceFrom_de {i : Bytes} {n : Nat} (h : n ≤ i.length) : DE (sliceFrom i n) := by
  rw [sliceFrom_ok h]; de_triv


theorem decodeInt_de (tail : Bytes) (h : Header) (hl : h.length ≤ tail.length) :
    DE (decodeInt tail h) := by
  unfold decodeInt
  split
  · de_triv
  · split
    · de_triv
    · apply de_bind (idx_de (by omega))
      intro _ _; de_triv


theorem decodeUnsigned_de (bits : Nat) (tail : Bytes) (h : Header) : DE (decodeUnsigned bits tail h) := by de_triv


theorem decodeBool_de (tail : Bytes) (h : Header) (hl : h.length ≤ tail.length) :
    DE (decodeBool tail h) := by
  unfold decodeBool
  split
  · de_triv
  · apply de_bind (idx_de (by omega))
    intro _ _; de_triv


theorem decodeNull_de (tail : Bytes) (h : Header) : DE (decodeNull tail h) := by
  unfold decodeNull; split <;> de_triv


theorem decodeSlice_de (tail : Bytes) (h : Header) (hl : h.length ≤ tail.length) :
    DE (decodeSlice tail h) := sliceTo_de hl


theorem decodeIpAddress_de (tail : Bytes) (h : Header) (hl : h.length ≤ tail.length) :
    DE (decodeIpAddress tail h) := by
  unfold decodeIpAddress
  split
  · de_triv
  · apply de_bind (idx_de (by omega)); intro _ _
    apply de_bind (idx_de (by omega)); intro _ _
    apply de_bind (idx_de (by omega)); intro _ _
    apply de_bind (idx_de (by omega)); intro _ _
    de_triv
theorem slice_de {i : Bytes} {a b : Nat} (h1 : a ≤ b) (h2 : b ≤ i.length) : DE (slice i a b) := by
  unfold slice; rw [if_pos ⟨h1, h2⟩]; exact de_ok _


theorem decodeRealBinary_de (i : Bytes) (f : Nat) : DE (decodeRealBinary i f) := by
  unfold decodeRealBinary
  have hlay : DE (realExpLayout i f) := by
    unfold realExpLayout
    split
    · split
      · de_triv
      · apply de_bind (idx_de (by omega)); intro _ _; de_triv
    · de_triv
  apply de_bind hlay; intro lay _
  simp only
  split
  · de_triv
  · rename_i hc
    apply de_bind (slice_de (by omega) (by omega)); intro _ _
    apply de_bind (sliceFrom_de (by omega)); intro _ _
    split <;> de_triv


theorem decodeReal_de (tail : Bytes) (h : Header) (hl : h.length ≤ tail.length) :
    DE (decodeReal tail h) := by
  unfold decodeReal
  split
  · de_triv
  · rename_i hne
    apply de_bind (sliceTo_de hl); intro i hi
    rw [sliceTo_ok hl] at hi; cases hi
    have hlen : (tail.take h.length).length = h.length := by simp [List.length_take]; omega
    apply de_bind (idx_de (by omega)); intro fb _
    simp only
    split
    · exact decodeRealBinary_de _ _
    · split
      · apply de_bind (sliceFrom_de (by omega)); intro _ _
        split
        · split <;> de_triv
        · split <;> de_triv
        · split <;> de_triv
        · de_triv
      · repeat (first | de_triv | split)


theorem intDecoder_derr : intDecoder.DErr := fun t h hl => decodeInt_de t h hl

theorem boolDecoder_derr : boolDecoder.DErr := fun t h hl => decodeBool_de t h hl

theorem nullDecoder_derr : nullDecoder.DErr := fun t h _ => decodeNull_de t h

theorem octetsDecoder_derr : octetsDecoder.DErr := fun t h hl => decodeSlice_de t h hl

theorem oidDecoder_derr : oidDecoder.DErr := fun t h hl => decodeSlice_de t h hl

theorem objDescDecoder_derr : objDescDecoder.DErr := fun t h hl => decodeSlice_de t h hl

theorem opaqueDecoder_derr : opaqueDecoder.DErr := fun t h hl => decodeSlice_de t h hl

theorem relOidDecoder_derr : relOidDecoder.DErr := fun t h hl => decodeSlice_de t h hl

theorem sequenceDecoder_derr : sequenceDecoder.DErr := fun t h hl => decodeSlice_de t h hl

theorem ipAddressDecoder_derr : ipAddressDecoder.DErr := fun t h hl => decodeIpAddress_de t h hl

theorem realDecoder_derr : realDecoder.DErr := fun t h hl => decodeReal_de t h hl

theorem counter32Decoder_derr : counter32Decoder.DErr := fun t h _ => decodeUnsigned_de 32 t h

theorem gauge32Decoder_derr : gauge32Decoder.DErr := fun t h _ => decodeUnsigned_de 32 t h

theorem timeticksDecoder_derr : timeticksDecoder.DErr := fun t h _ => decodeUnsigned_de 32 t h

theorem uinteger32Decoder_derr : uinteger32Decoder.DErr := fun t h _ => decodeUnsigned_de 32 t h

theorem counter64Decoder_derr : counter64Decoder.DErr := fun t h _ => decodeUnsigned_de 64 t h


theorem fromBer_de {α} (d : Decoder α) (hd : d.DErr) (i : Bytes) : DE (fromBer d i) := by
  unfold fromBer
  split
  · de_triv
  · apply de_bind (parseHeader_de i)
    intro ⟨hdr, tail⟩ hp
    obtain ⟨hl, _⟩ := parseHeader_ok hp
    simp only
    split
    · de_triv
    · apply de_bind (sliceFrom_de hl); intro _ _
      apply de_bind (hd tail hdr hl); intro _ _
      de_triv
theorem optionFromBer_de (i : Bytes) : DE (optionFromBer i) := by
  unfold optionFromBer
  split
  · de_triv
  · apply de_bind (parseHeader_de i)
    intro ⟨hdr, tail⟩ hp
    obtain ⟨hl, _⟩ := parseHeader_ok hp
    simp only
    split
    · de_triv
    · apply de_bind (sliceFrom_de hl); intro _ _
      apply de_bind (sliceTo_de hl); intro _ _
      de_triv
theorem decodeValue_de (tail : Bytes) (h : Header) (hl : h.length ≤ tail.length) :
    DE (decodeValue tail h) := by
  unfold decodeValue
  repeat' split
  all_goals first
    | de_triv
    | (apply de_bind (decodeBool_de tail h hl); intro _ _; de_triv)
    | (apply de_bind (decodeInt_de tail h hl); intro _ _; de_triv)
    | (apply de_bind (decodeSlice_de tail h hl); intro _ _; de_triv)
    | (apply de_bind (decodeNull_de tail h); intro _ _; de_triv)
    | (apply de_bind (decodeReal_de tail h hl); intro _ _; de_triv)
    | (apply de_bind (decodeIpAddress_de tail h hl); intro ⟨_, _, _, _⟩ _; de_triv)
    | (apply de_bind (decodeUnsigned_de _ tail h); intro _ _; de_triv)


theorem valueFromBer_de (i : Bytes) : DE (valueFromBer i) := by
  unfold valueFromBer
  apply de_bind (parseHeader_de i)
  intro ⟨hdr, tail⟩ hp
  obtain ⟨hl, _⟩ := parseHeader_ok hp
  simp only
  apply de_bind (decodeValue_de tail hdr hl); intro _ _
  apply de_bind (sliceFrom_de hl); intro _ _
  de_triv
theorem usub_de {a b : Nat} (h : b ≤ a) : DE (usub a b) := by
  unfold usub; rw [if_pos h]; exact de_ok _


theorem tryNormalize_de (rel oid : Bytes) : DE (tryNormalize rel oid) := by
  unfold tryNormalize
  split
  · de_triv
  · rename_i hne
    have hlen : 1 ≤ oid.length := by
      cases oid with
      | nil => simp at hne
      | cons _ _ => simp
    apply de_bind (sliceFrom_de hlen); intro base hb
    rw [sliceFrom_ok hlen] at hb; cases hb
    apply de_bind (usub_de (by omega)); intro b2 hb2
    rw [usub_ok (by omega)] at hb2; cases hb2
    split
    · rename_i hlt
      apply de_bind (usub_de (by omega)); intro k hk
      rw [usub_ok (by omega)] at hk; cases hk
      apply de_bind (usub_de (by omega)); intro k2 hk2
      apply de_bind
      · apply sliceTo_de
        cases hf : findSubelement (oid.drop 1) k2 with
        | none => simp only [Option.getD_none]; omega
        | some r =>
          have := findSubelementLoop_lt _ _ _ _ _ _ hf
          simp only [Option.getD_some, List.length_drop] at *; omega
      · intro _ _; de_triv
    · split
      · de_triv
      · rename_i hl2
        apply de_bind (idx_de (by omega)); intro first _
        apply de_bind (idx_de (by omega)); intro second _
        split
        · de_triv
        · rename_i hc
          simp only [Bool.or_eq_true, decide_eq_true_eq, Bool.and_eq_true, not_or, not_and, Nat.not_lt,
            Nat.not_le] at hc
          apply de_bind (usub_de (by omega)); intro _ _
          apply de_bind
          · unfold u8mul; rw [if_pos (by omega)]; exact de_ok _
          · intro m hm
            unfold u8mul at hm; rw [if_pos (by omega)] at hm; cases hm
            apply de_bind
            · unfold u8add; rw [if_pos (by omega)]; exact de_ok _
            · intro _ _
              apply de_bind (sliceFrom_de (by omega)); intro _ _
              de_triv
theorem parseVar_de (i : Bytes) : DE (parseVar i) := by
  unfold parseVar
  apply de_bind (fromBer_de _ sequenceDecoder_derr i); intro ⟨vs, rest⟩ _
  apply de_bind (fromBer_de _ oidDecoder_derr vs); intro ⟨oid, tail⟩ _
  apply de_bind (fromBer_de _ nullDecoder_derr tail); intro _ _
  de_triv
theorem parseVars_de (i : Bytes) : DE (parseVars i) := by
  induction hn : i.length using Nat.strongRecOn generalizing i with
  | _ n ih =>
    unfold parseVars
    split
    · de_triv
    · split
      · rename_i oid rest hp
        have hlt := parseVar_rest hp
        rw [dif_pos hlt]
        have := ih rest.length (by omega) rest rfl
        split
        · de_triv
        · rename_i e he; intro e' h'; cases h'; exact this e he
        · de_triv
      · rename_i e he
        intro e' h'; cases h'; exact parseVar_de i e he
      · de_triv


theorem parseRespVar_de (i : Bytes) (prev : Option Bytes) : DE (parseRespVar i prev) := by
  unfold parseRespVar
  apply de_bind (fromBer_de _ sequenceDecoder_derr i); intro ⟨vs, rest⟩ _
  simp only
  split
  · de_triv
  · apply de_bind
    · split
      · exact fromBer_de _ oidDecoder_derr _
      · split
        · split
          · de_triv
          · apply de_bind (fromBer_de _ relOidDecoder_derr _); intro ⟨rel, t⟩ _
            apply de_bind (tryNormalize_de _ _); intro _ _
            de_triv
        · de_triv
    · intro ⟨oid, tail⟩ _
      apply de_bind (valueFromBer_de tail); intro ⟨_, _⟩ _
      de_triv
theorem parseRespVars_de (i : Bytes) : ∀ prev, DE (parseRespVars i prev) := by
  induction hn : i.length using Nat.strongRecOn generalizing i with
  | _ n ih =>
    intro prev
    unfold parseRespVars
    split
    · de_triv
    · split
      · rename_i vb rest hp
        have hlt := parseRespVar_rest hp
        rw [dif_pos hlt]
        have := ih rest.length (by omega) rest rfl (some vb.oid)
        split
        · de_triv
        · rename_i e he; intro e' h'; cases h'; exact this e he
        · de_triv
      · rename_i e he
        intro e' h'; cases h'; exact parseRespVar_de i prev e he
      · de_triv


theorem getTryFrom_de (i : Bytes) : DE (getTryFrom i) := by
  unfold getTryFrom
  apply de_bind (fromBer_de _ intDecoder_derr i); intro ⟨_, t1⟩ _
  apply de_bind (fromBer_de _ intDecoder_derr t1); intro ⟨es, t2⟩ _
  simp only
  split
  · de_triv
  · apply de_bind (fromBer_de _ intDecoder_derr t2); intro ⟨ei, t3⟩ _
    simp only
    split
    · de_triv
    · apply de_bind (fromBer_de _ sequenceDecoder_derr t3); intro ⟨vb, t4⟩ _
      simp only
      split
      · de_triv
      · apply de_bind (parseVars_de vb); intro _ _; de_triv


theorem getBulkTryFrom_de (i : Bytes) : DE (getBulkTryFrom i) := by
  unfold getBulkTryFrom
  apply de_bind (fromBer_de _ intDecoder_derr i); intro ⟨_, t1⟩ _
  apply de_bind (fromBer_de _ intDecoder_derr t1); intro ⟨_, t2⟩ _
  apply de_bind (fromBer_de _ intDecoder_derr t2); intro ⟨_, t3⟩ _
  apply de_bind (fromBer_de _ sequenceDecoder_derr t3); intro ⟨vb, t4⟩ _
  simp only
  split
  · de_triv
  · apply de_bind (parseVars_de vb); intro _ _; de_triv


theorem getResponseTryFrom_de (i : Bytes) : DE (getResponseTryFrom i) := by
  unfold getResponseTryFrom
  apply de_bind (fromBer_de _ intDecoder_derr i); intro ⟨_, t1⟩ _
  apply de_bind (fromBer_de _ intDecoder_derr t1); intro ⟨_, t2⟩ _
  apply de_bind (fromBer_de _ intDecoder_derr t2); intro ⟨_, t3⟩ _
  apply de_bind (fromBer_de _ sequenceDecoder_derr t3); intro ⟨vb, t4⟩ _
  simp only
  split
  · de_triv
  · apply de_bind (parseRespVars_de vb none); intro _ _; de_triv


theorem pduTryFrom_de (i : Bytes) : DE (pduTryFrom i) := by
  unfold pduTryFrom
  apply de_bind (optionFromBer_de i); intro ⟨⟨tag, body⟩, _⟩ _
  simp only
  split
  · apply de_bind (getTryFrom_de body); intro ⟨_, _⟩ _; de_triv
  · split
    · apply de_bind (getTryFrom_de body); intro ⟨_, _⟩ _; de_triv
    · split
      · exact getResponseTryFrom_de body
      · split
        · apply de_bind (getBulkTryFrom_de body); intro ⟨_, _, _, _⟩ _; de_triv
        · split <;> de_triv


theorem communityMsgTryFrom_de (version : Nat) (i : Bytes) : DE (communityMsgTryFrom version i) := by
  unfold communityMsgTryFrom
  apply de_bind (fromBer_de _ sequenceDecoder_derr i); intro ⟨env, t⟩ _
  simp only
  split
  · de_triv
  · apply de_bind (fromBer_de _ intDecoder_derr env); intro ⟨vc, t1⟩ _
    simp only
    split
    · de_triv
    · apply de_bind (fromBer_de _ octetsDecoder_derr t1); intro ⟨c, t2⟩ _
      apply de_bind (pduTryFrom_de t2); intro _ _; de_triv


theorem usmTryFrom_de (i : Bytes) : DE (usmTryFrom i) := by
  unfold usmTryFrom
  apply de_bind (fromBer_de _ sequenceDecoder_derr i); intro ⟨env, t⟩ _
  simp only
  split
  · de_triv
  · apply de_bind (fromBer_de _ octetsDecoder_derr env); intro ⟨_, t1⟩ _
    apply de_bind (fromBer_de _ intDecoder_derr t1); intro ⟨_, t2⟩ _
    apply de_bind (fromBer_de _ intDecoder_derr t2); intro ⟨_, t3⟩ _
    apply de_bind (fromBer_de _ octetsDecoder_derr t3); intro ⟨_, t4⟩ _
    apply de_bind (fromBer_de _ octetsDecoder_derr t4); intro ⟨_, t5⟩ _
    apply de_bind (fromBer_de _ octetsDecoder_derr t5); intro ⟨_, _⟩ _
    de_triv
theorem scopedTryFrom_de (i : Bytes) : DE (scopedTryFrom i) := by
  unfold scopedTryFrom
  apply de_bind (fromBer_de _ sequenceDecoder_derr i); intro ⟨env, _⟩ _
  apply de_bind (fromBer_de _ octetsDecoder_derr env); intro ⟨_, t1⟩ _
  apply de_bind (fromBer_de _ octetsDecoder_derr t1); intro ⟨_, t2⟩ _
  apply de_bind (pduTryFrom_de t2); intro _ _; de_triv


theorem msgDataTryFrom_de (i : Bytes) : DE (msgDataTryFrom i) := by
  unfold msgDataTryFrom
  split
  · de_triv
  · split
    · apply de_bind (fromBer_de _ octetsDecoder_derr _); intro ⟨_, _⟩ _; de_triv
    · apply de_bind (scopedTryFrom_de _); intro _ _; de_triv


theorem v3TryFrom_de (i : Bytes) : DE (v3TryFrom i) := by
  unfold v3TryFrom
  apply de_bind (fromBer_de _ sequenceDecoder_derr i); intro ⟨env, t⟩ _
  simp only
  split
  · de_triv
  · apply de_bind (fromBer_de _ intDecoder_derr env); intro ⟨vc, t1⟩ _
    simp only
    split
    · de_triv
    · apply de_bind (fromBer_de _ sequenceDecoder_derr t1); intro ⟨hdrEnv, spTail⟩ _
      apply de_bind (fromBer_de _ intDecoder_derr hdrEnv); intro ⟨_, t2⟩ _
      apply de_bind (fromBer_de _ intDecoder_derr t2); intro ⟨_, t3⟩ _
      apply de_bind (fromBer_de _ octetsDecoder_derr t3); intro ⟨flagsData, t4⟩ _
      simp only
      split
      · de_triv
      · rename_i hfl
        apply de_bind (idx_de (by simp only [ne_eq, Decidable.not_not] at hfl; omega)); intro _ _
        apply de_bind (fromBer_de _ intDecoder_derr t4); intro ⟨sm, _⟩ _
        simp only
        split
        · de_triv
        · apply de_bind (fromBer_de _ octetsDecoder_derr spTail); intro ⟨sp, t5⟩ _
          apply de_bind (usmTryFrom_de sp); intro _ _
          apply de_bind (msgDataTryFrom_de t5); intro _ _
          de_triv

end GufoSnmp
