import GufoSnmp.Lemmas.ArcOrder
import GufoSnmp.Lemmas.WalkLemmas
/-!
# A GetNext walk against an RFC 3416 agent returns exactly the subtree
-/
namespace GufoSnmp
open Gen Spec Walk

/-! ## the arc order is a strict total order -/

theorem arcsLt_irrefl : ∀ (x : Arcs), arcsLt x x = false
  | [] => rfl
  | a :: as => by
    unfold arcsLt
    rw [if_neg (by omega), if_neg (by omega)]
    exact arcsLt_irrefl as

theorem arcsLt_trans : ∀ (x y z : Arcs), arcsLt x y = true → arcsLt y z = true → arcsLt x z = true
  | [], [], _, h, _ => by simp [arcsLt] at h
  | [], _ :: _, [], _, h => by simp [arcsLt] at h
  | [], _ :: _, _ :: _, _, _ => rfl
  | _ :: _, [], _, h, _ => by simp [arcsLt] at h
  | _ :: _, _ :: _, [], _, h => by simp [arcsLt] at h
  | a :: as, b :: bs, c :: cs, h1, h2 => by
    unfold arcsLt at h1 h2 ⊢
    split at h1
    · split at h2
      · rw [if_pos (by omega)]
      · split at h2
        · cases h2
        · rw [if_pos (by omega)]
    · split at h1
      · cases h1
      · split at h2
        · rw [if_pos (by omega)]
        · split at h2
          · cases h2
          · rw [if_neg (by omega), if_neg (by omega)]
            exact arcsLt_trans as bs cs h1 h2

/-- between a node and one of its descendants there are only descendants -/
theorem prefix_between : ∀ (base x y : Arcs), arcsLt base x = true → arcsLt x y = true →
    base.isPrefixOf y = true → base.isPrefixOf x = true
  | [], _, _, _, _, _ => by simp [List.isPrefixOf]
  | _ :: _, [], _, h, _, _ => by simp [arcsLt] at h
  | _ :: _, _ :: _, [], _, h, _ => by simp [arcsLt] at h
  | b :: bs, c :: xs, d :: ys, h1, h2, h3 => by
    simp only [List.isPrefixOf, Bool.and_eq_true, beq_iff_eq] at h3 ⊢
    obtain ⟨hbd, hp⟩ := h3
    subst hbd
    unfold arcsLt at h1 h2
    by_cases hbc : b < c
    · rw [if_neg (by omega), if_pos hbc] at h2; cases h2
    · rw [if_neg hbc] at h1
      by_cases hcb : c < b
      · rw [if_pos hcb] at h1; cases h1
      · rw [if_neg hcb] at h1
        rw [if_neg hcb, if_neg hbc] at h2
        exact ⟨by omega, prefix_between bs xs ys h1 h2 hp⟩

/-! ## byte prefix of canonical encodings is arc prefix -/

theorem encTail_prefix : ∀ (r s : List Nat),
    (encTail r).isPrefixOf (encTail s) = true ↔ r.isPrefixOf s = true
  | [], _ => by simp [encTail, List.isPrefixOf]
  | a :: as, [] => by
    rw [encTail_cons]
    cases ha : b128 a with
    | nil => exact absurd ha (b128_ne_nil a)
    | cons c cs => simp [encTail, List.isPrefixOf]
  | a :: as, b :: bs => by
    rw [encTail_cons, encTail_cons]
    constructor
    · intro h
      rw [List.isPrefixOf_iff_prefix] at h
      obtain ⟨t, ht⟩ := h
      have h1 := splitArc_b128 a (encTail as ++ t)
      have h2 := splitArc_b128 b (encTail bs)
      rw [← List.append_assoc, ht, h2] at h1
      simp only [Prod.mk.injEq] at h1
      obtain ⟨hab, hrest⟩ := h1
      have := b128_inj _ _ hab
      subst this
      simp only [List.isPrefixOf, beq_self_eq_true, Bool.true_and]
      rw [← encTail_prefix as bs, List.isPrefixOf_iff_prefix]
      exact ⟨t, hrest.symm⟩
    · intro h
      simp only [List.isPrefixOf, Bool.and_eq_true, beq_iff_eq] at h
      obtain ⟨hab, hp⟩ := h
      subst hab
      rw [List.isPrefixOf_iff_prefix]
      have := (encTail_prefix as bs).mpr hp
      rw [List.isPrefixOf_iff_prefix] at this
      obtain ⟨t, ht⟩ := this
      exact ⟨t, by rw [List.append_assoc, ht]⟩

/-- **prefix**: for valid OIDs the subtree test on bytes is the subtree test on arcs -/
theorem startsWith_enc (a0 a1 : Nat) (r : List Nat) (b0 b1 : Nat) (s : List Nat)
    (ha : a0 ≤ 2 ∧ a1 ≤ 39) (hb : b0 ≤ 2 ∧ b1 ≤ 39) :
    oidStartsWith (encOidArcs a0 a1 r) (encOidArcs b0 b1 s) = (a0 :: a1 :: r).isPrefixOf (b0 :: b1 :: s) := by
  unfold oidStartsWith encOidArcs
  simp only [List.isPrefixOf]
  by_cases h0 : a0 = b0
  · by_cases h1 : a1 = b1
    · subst h0; subst h1
      simp only [beq_self_eq_true, Bool.true_and]
      cases hp : r.isPrefixOf s with
      | true => exact (encTail_prefix r s).mpr hp
      | false =>
        cases hq : (encTail r).isPrefixOf (encTail s) with
        | true => rw [(encTail_prefix r s).mp hq] at hp; cases hp
        | false => rfl
    · have hne : (UInt8.ofNat (40 * a0 + a1) == UInt8.ofNat (40 * b0 + b1)) = false := by
        rw [beq_eq_false_iff_ne]
        intro he
        have := congrArg UInt8.toNat he
        rw [ofNat_toNat (by omega), ofNat_toNat (by omega)] at this
        omega
      rw [hne]; simp [h1]
  · have hne : (UInt8.ofNat (40 * a0 + a1) == UInt8.ofNat (40 * b0 + b1)) = false := by
      rw [beq_eq_false_iff_ne]
      intro he
      have := congrArg UInt8.toNat he
      rw [ofNat_toNat (by omega), ofNat_toNat (by omega)] at this
      omega
    rw [hne]; simp [h0]

end GufoSnmp

namespace GufoSnmp
open Gen Spec Walk

/-- content octets of an OID given as arcs (empty for shapes the client cannot name) -/
def encA : Arcs → Bytes
  | a0 :: a1 :: r => encOidArcs a0 a1 r
  | _ => []

structure MibOK (mib : List (Arcs × Value)) : Prop where
  sorted : SortedMib mib
  valid : ∀ e ∈ mib, ValidOid e.1
  data : ∀ e ∈ mib, e.2.isData = true
  conv : ∀ e ∈ mib, ∃ s, valueToPy e.2 = .ok s

/-- the Python value of a MIB value -/
def pyOf (v : Value) : PyScalar :=
  match valueToPy v with
  | .ok s => s
  | _ => .none

/-- what the caller sees for a MIB entry: (raw OID, dotted text, value) -/
def itemOf (e : Arcs × Value) : Py.Item := (encA e.1, dotted e.1, pyOf e.2)

/-- the agent's GetResponse for an entry -/
def respOf (e : Arcs × Value) : Pdu := .getResponse 0 0 0 [⟨encA e.1, e.2⟩]

/-- GetNext walk against the RFC 3416 agent: each request names `cur`, the agent answers with
the least entry above it; `none` (endOfMibView / noSuchName) ends the walk (`C06.stops_next`) -/
def agentWalk (mib : List (Arcs × Value)) (cur : Arcs) (it : GetIter) : Nat → List Py.Item
  | 0 => []
  | f + 1 =>
    match agentNext mib cur with
    | none => []
    | some e =>
      match opGetNextToPython (respOf e) (some it) with
      | (.value (.pair raw k v), some it') => (raw, k, v) :: agentWalk mib e.1 it' f
      | _ => []

theorem setNext_enc (base cur eo : Arcs) (hb : ValidOid base) (hc : ValidOid cur) (he : ValidOid eo)
    (hlt : arcsLt cur eo = true) (it : GetIter) (hs : it.startOid = encA base) (hn : it.nextOid = encA cur) :
    it.setNextOid (encA eo) =
      if base.isPrefixOf eo then ({ it with nextOid := encA eo }, true) else (it, false) := by
  obtain ⟨b0, b1, br, rfl, hb0, hb1, _⟩ := hb
  obtain ⟨c0, c1, cr, rfl, hc0, hc1, _⟩ := hc
  obtain ⟨e0, e1, er, rfl, he0, he1, _⟩ := he
  have hcond : (oidStartsWith it.startOid (encA (e0 :: e1 :: er))
      && cmpArcs (encA (e0 :: e1 :: er)) it.nextOid == .gt) = (b0 :: b1 :: br).isPrefixOf (e0 :: e1 :: er) := by
    rw [hs, hn]
    simp only [encA]
    rw [startsWith_enc b0 b1 br e0 e1 er ⟨hb0, hb1⟩ ⟨he0, he1⟩,
      cmpArcs_enc c0 c1 cr e0 e1 er ⟨hc0, hc1⟩ ⟨he0, he1⟩ hlt]
    simp
  unfold GetIter.setNextOid
  simp only [hcond]

theorem oidToStr_encA (o : Arcs) (h : ValidOid o) : oidToStr (encA o) = .ok (dotted o) := by
  obtain ⟨a0, a1, r, rfl, h0, h1, hr⟩ := h
  exact oidToStr_der a0 a1 r h0 h1 hr _ rfl

theorem step_accept (base cur : Arcs) (e : Arcs × Value) (hb : ValidOid base) (hc : ValidOid cur)
    (he : ValidOid e.1) (hlt : arcsLt cur e.1 = true) (hd : e.2.isData = true)
    (hv : ∃ s, valueToPy e.2 = .ok s) (it : GetIter) (hs : it.startOid = encA base)
    (hn : it.nextOid = encA cur) (hp : base.isPrefixOf e.1 = true) :
    opGetNextToPython (respOf e) (some it) =
      (.value (.pair (encA e.1) (dotted e.1) (pyOf e.2)), some { it with nextOid := encA e.1 }) := by
  unfold opGetNextToPython respOf
  simp only
  rw [setNext_enc base cur e.1 hb hc he hlt it hs hn, hp]
  simp only [if_true, Bool.not_true, Bool.false_eq_true, if_false, hd]
  rw [oidToStr_encA e.1 he]
  obtain ⟨s, hs'⟩ := hv
  simp only [liftErr, hs', pyOf]

theorem step_reject (base cur : Arcs) (e : Arcs × Value) (hb : ValidOid base) (hc : ValidOid cur)
    (he : ValidOid e.1) (hlt : arcsLt cur e.1 = true) (it : GetIter) (hs : it.startOid = encA base)
    (hn : it.nextOid = encA cur) (hp : base.isPrefixOf e.1 = false) :
    (opGetNextToPython (respOf e) (some it)).1 = stopAsync := by
  unfold opGetNextToPython respOf
  simp only
  rw [setNext_enc base cur e.1 hb hc he hlt it hs hn, hp]
  simp

/-! ## sorted MIB: the entries above a point -/

def above (mib : List (Arcs × Value)) (cur : Arcs) : List (Arcs × Value) :=
  mib.filter (fun e => arcsLt cur e.1)

theorem agentNext_eq_head (mib : List (Arcs × Value)) (cur : Arcs) :
    agentNext mib cur = (above mib cur).head? := by
  unfold agentNext above
  induction mib with
  | nil => rfl
  | cons x xs ih =>
    simp only [List.find?_cons, List.filter_cons]
    split <;> simp_all

/-- in a sorted MIB, once the first entry `e` above `cur` is found, the entries above `e` are
exactly the remaining ones -/
theorem above_step : ∀ (mib : List (Arcs × Value)), SortedMib mib → ∀ (cur : Arcs) (e : Arcs × Value)
    (L : List (Arcs × Value)), above mib cur = e :: L →
    above mib e.1 = L ∧ arcsLt cur e.1 = true ∧ (∀ y ∈ L, arcsLt e.1 y.1 = true) ∧ e ∈ mib ∧ (∀ y ∈ L, y ∈ mib)
  | [], _, _, _, _, h => by simp [above] at h
  | x :: xs, hs, cur, e, L, h => by
    have hx : ∀ y ∈ xs, arcsLt x.1 y.1 = true := (List.pairwise_cons.mp hs).1
    have hxs : SortedMib xs := (List.pairwise_cons.mp hs).2
    unfold above at h ⊢
    simp only [List.filter_cons] at h ⊢
    by_cases hc : arcsLt cur x.1 = true
    · rw [if_pos hc] at h
      simp only [List.cons.injEq] at h
      obtain ⟨rfl, hL⟩ := h
      have hall : xs.filter (fun e => arcsLt cur e.1) = xs := by
        rw [List.filter_eq_self]
        intro y hy
        exact arcsLt_trans cur x.1 y.1 hc (hx y hy)
      rw [hall] at hL
      subst hL
      rw [arcsLt_irrefl, if_neg (by simp)]
      refine ⟨?_, hc, hx, by simp, fun y hy => by simp [hy]⟩
      rw [List.filter_eq_self]
      exact hx
    · rw [if_neg hc] at h
      obtain ⟨h1, h2, h3, h4, h5⟩ := above_step xs hxs cur e L h
      have hne : arcsLt e.1 x.1 = false := by
        cases hex : arcsLt e.1 x.1 with
        | false => rfl
        | true => exact absurd (arcsLt_trans cur e.1 x.1 h2 hex) hc
      rw [hne, if_neg (by simp)]
      exact ⟨h1, h2, h3, by simp [h4], fun y hy => by simp [h5 y hy]⟩

theorem validOid_iff (o : Arcs) : ValidOid o → ∃ a0 a1 r, o = a0 :: a1 :: r := by
  intro ⟨a0, a1, r, h, _⟩; exact ⟨a0, a1, r, h⟩

/-- **the GetNext walk against the agent yields exactly the entries above `cur` that lie below
`base`** (generalised statement for the induction) -/
theorem agentWalk_above (mib : List (Arcs × Value)) (hm : MibOK mib) (base : Arcs) (hb : ValidOid base) :
    ∀ (n : Nat) (cur : Arcs) (it : GetIter) (fuel : Nat), (above mib cur).length = n → n < fuel →
      ValidOid cur → (cur = base ∨ arcsLt base cur = true) →
      it.startOid = encA base → it.nextOid = encA cur →
      agentWalk mib cur it fuel = ((above mib cur).filter (fun e => base.isPrefixOf e.1)).map itemOf := by
  intro n
  induction n with
  | zero =>
    intro cur it fuel hl hf hc _ _ _
    have hnil : above mib cur = [] := List.length_eq_zero_iff.mp hl
    cases fuel with
    | zero => omega
    | succ f =>
      simp only [agentWalk, agentNext_eq_head, hnil, List.head?_nil, List.filter_nil, List.map_nil]
  | succ n ih =>
    intro cur it fuel hl hf hc hcb hs hn
    cases hab : above mib cur with
    | nil => rw [hab] at hl; simp at hl
    | cons e L =>
      obtain ⟨h1, h2, h3, h4, h5⟩ := above_step mib hm.sorted cur e L hab
      cases fuel with
      | zero => omega
      | succ f =>
        simp only [agentWalk, agentNext_eq_head, hab, List.head?_cons]
        have hbe : arcsLt base e.1 = true := by
          rcases hcb with rfl | hcb
          · exact h2
          · exact arcsLt_trans base cur e.1 hcb h2
        cases hp : base.isPrefixOf e.1 with
        | true =>
          rw [step_accept base cur e hb hc (hm.valid e h4) h2 (hm.data e h4) (hm.conv e h4) it hs hn hp]
          simp only [List.filter_cons, hp, if_true, List.map_cons, itemOf]
          congr 1
          have := ih e.1 { it with nextOid := encA e.1 } f (by rw [h1]; rw [hab] at hl; simpa using hl)
            (by omega) (hm.valid e h4) (Or.inr hbe) hs rfl
          rw [this, h1]
        | false =>
          have hrej := step_reject base cur e hb hc (hm.valid e h4) h2 it hs hn hp
          have : (match opGetNextToPython (respOf e) (some it) with
              | (.value (.pair raw k v), some it') => (raw, k, v) :: agentWalk mib e.1 it' f
              | _ => []) = [] := by
            cases hr : opGetNextToPython (respOf e) (some it) with
            | mk out st =>
              rw [hr] at hrej
              simp only at hrej
              subst hrej
              rfl
          rw [this]
          simp only [List.filter_cons, hp, Bool.false_eq_true, if_false]
          -- no later entry can lie below `base`: it would force `e` below `base` as well
          symm
          rw [List.map_eq_nil_iff, List.filter_eq_nil_iff]
          intro y hy hpy
          have := prefix_between base e.1 y.1 hbe (h3 y hy) hpy
          rw [hp] at this; cases this

/-- the subtree is what lies above the base and below it -/
theorem subtree_eq_above (mib : List (Arcs × Value)) (base : Arcs) :
    subtree base mib = (above mib base).filter (fun e => base.isPrefixOf e.1) := by
  unfold subtree above
  rw [List.filter_filter]

end GufoSnmp
