import GufoSnmp.Lemmas.AgentWalk
/-!
# GetBulk walk against an RFC 3416 agent over a sorted MIB (for C05)

`nextN` is RFC 3416 §4.2.3 for one repeater: the `n` successive lexicographic successors of the
requested name; when the MIB is exhausted the remaining repetitions carry `endOfMibView`
(`bulkResp`).  `bulkWalk` composes the library's `OpGetBulk::to_python` / `GetIter` and the
Python iterator (`Walk.drain`) with any agent function that answers a request for the encoded
OID `encA o` with `bulkResp mib o n`.
-/
namespace GufoSnmp
open Gen Spec Walk

def vbOf (e : Arcs × Value) : VarBind := ⟨encA e.1, e.2⟩

/-- the `n` successive successors of `cur` -/
def nextN (mib : List (Arcs × Value)) : Nat → Arcs → List (Arcs × Value)
  | 0, _ => []
  | n + 1, cur =>
    match agentNext mib cur with
    | none => []
    | some e => e :: nextN mib n e.1

def lastArcs (cur : Arcs) : List (Arcs × Value) → Arcs
  | [] => cur
  | e :: rest => lastArcs e.1 rest

/-- the agent's response to GetBulk(non-repeaters 0, max-repetitions n) naming `cur` -/
def bulkResp (mib : List (Arcs × Value)) (cur : Arcs) (n : Nat) : List VarBind :=
  (nextN mib n cur).map vbOf ++
    List.replicate (n - (nextN mib n cur).length) ⟨encA (lastArcs cur (nextN mib n cur)), .endOfMibView⟩

/-- what the conversion loop is expected to do with that response: (accepted entries, whether it
met an entry outside the subtree, the OID the iterator points at afterwards) -/
def bulkExpect (mib : List (Arcs × Value)) (base : Arcs) : Nat → Arcs → List (Arcs × Value) × Bool × Arcs
  | 0, cur => ([], false, cur)
  | n + 1, cur =>
    match agentNext mib cur with
    | none => ([], false, cur)
    | some e =>
      if base.isPrefixOf e.1 then
        ((e :: (bulkExpect mib base n e.1).1), (bulkExpect mib base n e.1).2.1, (bulkExpect mib base n e.1).2.2)
      else ([], true, cur)

theorem getBulkLoop_pad : ∀ (pad : List VarBind), (∀ v ∈ pad, v.value.isData = false) →
    ∀ (it : GetIter) (acc : List (Option Py.Item)), getBulkLoop pad it acc = (.ok acc, it)
  | [], _, _, _ => rfl
  | v :: rest, h, it, acc => by
    have hv := h v (by simp)
    simp only [getBulkLoop, hv, Bool.not_false, if_true]
    exact getBulkLoop_pad rest (fun x hx => h x (by simp [hx])) it acc

/-- the conversion loop on the agent's response -/
theorem getBulkLoop_resp (mib : List (Arcs × Value)) (hm : MibOK mib) (base : Arcs) (hb : ValidOid base) :
    ∀ (n : Nat) (cur : Arcs) (it : GetIter) (acc : List (Option Py.Item)) (pad : List VarBind),
      (∀ v ∈ pad, v.value.isData = false) → ValidOid cur →
      it.startOid = encA base → it.nextOid = encA cur →
      getBulkLoop ((nextN mib n cur).map vbOf ++ pad) it acc =
        (.ok (acc ++ (bulkExpect mib base n cur).1.map (fun e => some (itemOf e))
               ++ (if (bulkExpect mib base n cur).2.1 then [none] else [])),
         { it with nextOid := encA (bulkExpect mib base n cur).2.2 }) := by
  intro n
  induction n with
  | zero =>
    intro cur it acc pad hp _ _ hn
    simp only [nextN, bulkExpect, List.map_nil, List.nil_append, List.append_nil, Bool.false_eq_true, if_false]
    rw [getBulkLoop_pad pad hp, ← hn]
  | succ n ih =>
    intro cur it acc pad hp hc hs hn
    have hag := agentNext_eq_head mib cur
    cases hab : above mib cur with
    | nil =>
      rw [hab] at hag
      simp only [List.head?_nil] at hag
      simp only [nextN, bulkExpect, hag, List.map_nil, List.nil_append, List.append_nil, Bool.false_eq_true, if_false]
      rw [getBulkLoop_pad pad hp, ← hn]
    | cons e L =>
      rw [hab] at hag
      simp only [List.head?_cons] at hag
      obtain ⟨h1, h2, h3, h4, h5⟩ := above_step mib hm.sorted cur e L hab
      have hd := hm.data e h4
      have hve := hm.valid e h4
      obtain ⟨sv, hsv⟩ := hm.conv e h4
      have hset := setNext_enc base cur e.1 hb hc hve h2 it hs hn
      cases hp' : base.isPrefixOf e.1 with
      | true =>
        rw [hp', if_pos rfl] at hset
        have hstep : getBulkLoop (vbOf e :: ((nextN mib n e.1).map vbOf ++ pad)) it acc =
            getBulkLoop ((nextN mib n e.1).map vbOf ++ pad) { it with nextOid := encA e.1 }
              (acc ++ [some (encA e.1, dotted e.1, sv)]) := by
          simp only [getBulkLoop, vbOf, hd, hset, oidToStr_encA e.1 hve, hsv, Bool.not_true, Bool.false_eq_true,
            if_false]
        simp only [nextN, bulkExpect, hag, hp', if_true, List.map_cons, List.cons_append]
        rw [hstep, ih e.1 { it with nextOid := encA e.1 } (acc ++ [some (encA e.1, dotted e.1, sv)]) pad hp hve hs rfl]
        have hi : itemOf e = (encA e.1, dotted e.1, sv) := by simp [itemOf, pyOf, hsv]
        simp only [hi, List.append_assoc, List.singleton_append, List.cons_append, List.nil_append]
      | false =>
        rw [hp', if_neg (by simp)] at hset
        have hstep : getBulkLoop (vbOf e :: ((nextN mib n e.1).map vbOf ++ pad)) it acc =
            (.ok (acc ++ [none]), it) := by
          simp only [getBulkLoop, vbOf, hd, hset, Bool.not_true, Bool.false_eq_true, if_false, Bool.not_false, if_true]
        simp only [nextN, bulkExpect, hag, hp', Bool.false_eq_true, if_false, List.map_cons, List.cons_append,
          List.map_nil, List.append_nil, if_true]
        rw [hstep, ← hn]

/-- what `bulkExpect` means in terms of the entries above `cur` -/
theorem bulkExpect_facts (mib : List (Arcs × Value)) (hm : MibOK mib) (base : Arcs) :
    ∀ (n : Nat) (cur : Arcs), ValidOid cur → (cur = base ∨ arcsLt base cur = true) →
      (above mib cur).filter (fun e => base.isPrefixOf e.1) =
        (bulkExpect mib base n cur).1 ++ (if (bulkExpect mib base n cur).2.1 then []
          else (above mib (bulkExpect mib base n cur).2.2).filter (fun e => base.isPrefixOf e.1)) ∧
      (above mib (bulkExpect mib base n cur).2.2).length + (bulkExpect mib base n cur).1.length ≤ (above mib cur).length ∧
      ((bulkExpect mib base n cur).1 = [] → (bulkExpect mib base n cur).2.1 = false → 0 < n → above mib cur = []) ∧
      ValidOid (bulkExpect mib base n cur).2.2 ∧
      ((bulkExpect mib base n cur).2.2 = base ∨ arcsLt base (bulkExpect mib base n cur).2.2 = true) := by
  intro n
  induction n with
  | zero =>
    intro cur hc hcb
    simp only [bulkExpect, List.nil_append, Bool.false_eq_true, if_false, List.length_nil, Nat.add_zero,
      Nat.le_refl, true_and]
    exact ⟨fun _ _ h => absurd h (by omega), hc, hcb⟩
  | succ n ih =>
    intro cur hc hcb
    have hag := agentNext_eq_head mib cur
    cases hab : above mib cur with
    | nil =>
      rw [hab] at hag
      simp only [List.head?_nil] at hag
      simp only [bulkExpect, hag, List.nil_append, Bool.false_eq_true, if_false, hab, List.length_nil,
        Nat.add_zero, Nat.le_refl, true_and, List.filter_nil]
      exact ⟨fun _ _ _ => trivial, hc, hcb⟩
    | cons e L =>
      rw [hab] at hag
      simp only [List.head?_cons] at hag
      obtain ⟨h1, h2, h3, h4, h5⟩ := above_step mib hm.sorted cur e L hab
      have hbe : arcsLt base e.1 = true := by
        rcases hcb with rfl | hcb
        · exact h2
        · exact arcsLt_trans base cur e.1 hcb h2
      cases hp : base.isPrefixOf e.1 with
      | true =>
        simp only [bulkExpect, hag, hp, if_true]
        obtain ⟨f1, f2, f3, f4, f5⟩ := ih e.1 (hm.valid e h4) (Or.inr hbe)
        rw [h1] at f1 f2
        refine ⟨?_, ?_, ?_, f4, f5⟩
        · simp only [List.filter_cons, hp, if_true, List.cons_append]
          rw [f1]
        · simp only [List.length_cons]; omega
        · intro h; cases h
      | false =>
        simp only [bulkExpect, hag, hp, Bool.false_eq_true, if_false, List.nil_append, if_true, List.length_nil,
          Nat.add_zero, hab, Nat.le_refl, true_and]
        refine ⟨?_, (fun _ h => by cases h), hc, hcb⟩
        simp only [List.filter_cons, hp, Bool.false_eq_true, if_false]
        rw [List.filter_eq_nil_iff]
        intro y hy hpy
        have := prefix_between base e.1 y.1 hbe (h3 y hy) hpy
        rw [hp] at this; cases this

/-- the GetBulk walk: the iterator class over the library's conversion, against an agent function on
encoded OIDs -/
def bulkWalk (agent : Bytes → List VarBind) (it : GetIter) : Nat → List Py.Item
  | 0 => []
  | f + 1 =>
    match opGetBulkToPython (.getResponse 0 0 0 (agent it.nextOid)) (some it) with
    | (.value (.list xs), some it') =>
      if (drain xs).2 then (drain xs).1 else (drain xs).1 ++ bulkWalk agent it' f
    | _ => []

theorem drain_somes (xs : List Py.Item) (tail : List (Option Py.Item)) :
    drain (xs.map some ++ tail) = (xs ++ (drain tail).1, (drain tail).2) := by
  induction xs with
  | nil => simp
  | cons x rest ih => simp only [List.map_cons, List.cons_append, drain_some, ih]

theorem bulkResp_length (mib : List (Arcs × Value)) (cur : Arcs) (n : Nat) : (bulkResp mib cur n).length = n := by
  have hl : ∀ (n : Nat) (cur : Arcs), (nextN mib n cur).length ≤ n := by
    intro n
    induction n with
    | zero => intro _; simp [nextN]
    | succ n ih =>
      intro cur
      simp only [nextN]
      cases agentNext mib cur with
      | none => simp
      | some e => simp only [List.length_cons]; have := ih e.1; omega
  have := hl n cur
  simp only [bulkResp, List.length_append, List.length_map, List.length_replicate]
  omega

/-- **the GetBulk walk against the agent yields exactly the entries above `cur` below `base`** -/
theorem bulkWalk_above (mib : List (Arcs × Value)) (hm : MibOK mib) (base : Arcs) (hb : ValidOid base)
    (n : Nat) (hn : 1 ≤ n) (agent : Bytes → List VarBind)
    (ha : ∀ o, ValidOid o → agent (encA o) = bulkResp mib o n) :
    ∀ (k : Nat) (cur : Arcs) (it : GetIter) (fuel : Nat), (above mib cur).length = k → k < fuel →
      ValidOid cur → (cur = base ∨ arcsLt base cur = true) →
      it.startOid = encA base → it.nextOid = encA cur →
      bulkWalk agent it fuel = ((above mib cur).filter (fun e => base.isPrefixOf e.1)).map itemOf := by
  intro k
  induction k using Nat.strongRecOn with
  | _ k ih =>
    intro cur it fuel hl hf hc hcb hs hnx
    cases fuel with
    | zero => omega
    | succ f =>
      simp only [bulkWalk]
      rw [hnx, ha cur hc]
      have hne : (bulkResp mib cur n).isEmpty = false := by
        have := bulkResp_length mib cur n
        cases h : bulkResp mib cur n with
        | nil => rw [h] at this; simp at this; omega
        | cons _ _ => rfl
      simp only [opGetBulkToPython, hne, Bool.false_eq_true, if_false]
      have hpad : ∀ v ∈ List.replicate (n - (nextN mib n cur).length)
          (⟨encA (lastArcs cur (nextN mib n cur)), .endOfMibView⟩ : VarBind), v.value.isData = false := by
        intro v hv
        rw [List.eq_of_mem_replicate hv]; rfl
      unfold bulkResp
      rw [getBulkLoop_resp mib hm base hb n cur it [] _ hpad hc hs hnx]
      obtain ⟨f1, f2, f3, f4, f5⟩ := bulkExpect_facts mib hm base n cur hc hcb
      generalize hr : bulkExpect mib base n cur = r at *
      obtain ⟨xs, s, c⟩ := r
      simp only at f1 f2 f3 f4 f5 ⊢
      simp only [List.nil_append]
      cases s with
      | true =>
        simp only [if_true] at f1 ⊢
        have hne2 : (xs.map (fun e => some (itemOf e)) ++ [none]).isEmpty = false := by
          cases xs <;> rfl
        rw [hne2]
        simp only [Bool.false_eq_true, if_false]
        have hm' : xs.map (fun e => some (itemOf e)) = (xs.map itemOf).map some := by simp
        rw [hm', drain_somes]
        simp only [drain, List.append_nil, if_true]
        rw [f1, List.append_nil]
      | false =>
        simp only [Bool.false_eq_true, if_false, List.append_nil] at f1 ⊢
        cases hx : xs with
        | nil =>
          simp only [List.map_nil, List.isEmpty_nil, if_true]
          have : above mib cur = [] := f3 hx rfl (by omega)
          rw [this]
          rfl
        | cons x rest =>
          rw [← hx]
          have hne2 : (xs.map (fun e => some (itemOf e))).isEmpty = false := by rw [hx]; rfl
          rw [hne2]
          simp only [Bool.false_eq_true, if_false]
          have hm' : xs.map (fun e => some (itemOf e)) = (xs.map itemOf).map some ++ [] := by simp
          rw [hm', drain_somes]
          simp only [drain, List.append_nil, Bool.false_eq_true, if_false]
          have hlt : (above mib c).length < k := by
            have : 0 < xs.length := by rw [hx]; simp
            omega
          rw [ih (above mib c).length hlt c { it with nextOid := encA c } f rfl (by omega) f4 f5 hs rfl]
          rw [f1, List.map_append]

end GufoSnmp
