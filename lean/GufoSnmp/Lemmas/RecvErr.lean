import GufoSnmp.Lemmas.PrivLemmas
import GufoSnmp.Lemmas.DecErr
/-!
# The receive step fails only with errors of the `SnmpDecodeError` class
-/
namespace GufoSnmp
open Gen Outcome

/-- `unwrap_pdu` of the v3 socket never fails: it delivers or skips -/
theorem unwrapV3_no_err (C : Ciphers) (s : V3Session) (m : V3Msg) (e : SnmpError) :
    (unwrapV3 C s m).2 ≠ .err e := by
  unfold unwrapV3
  cases hd : m.data with
  | plaintext x =>
    simp only
    split <;> (intro h; cases h)
  | encrypted ct =>
    simp only
    cases hk : s.privKey.decrypt C ct m.usm with
    | ok r =>
      obtain ⟨x, pk'⟩ := r
      simp only
      split <;> (intro h; cases h)
    | err e' => intro h; cases h
    | panic w => intro h; cases h

/-- whenever one datagram makes the receive step fail, the failure is of
the `SnmpDecodeError` class (error table generated from `src/error.rs`): no other exception class can
come out of the decoding of a datagram -/
theorem recvOne_decode_class (C : Ciphers) (s : Session) (dg : Bytes) (e : SnmpError)
    (h : (s.recvOne C dg).2 = .err e) : pyClass e = .SnmpDecodeError := by
  cases s with
  | community cs =>
    simp only [Session.recvOne] at h
    cases hm : communityMsgTryFrom cs.version dg with
    | ok m => rw [hm] at h; cases h
    | err e' =>
      rw [hm] at h
      simp only [Outcome.err.injEq] at h
      subst h
      exact communityMsgTryFrom_de cs.version dg e' hm
    | panic w => rw [hm] at h; cases h
  | v3 vs =>
    simp only [Session.recvOne] at h
    cases hm : v3TryFrom dg with
    | ok m =>
      rw [hm] at h
      simp only at h
      exact absurd h (unwrapV3_no_err C vs m e)
    | err e' =>
      rw [hm] at h
      simp only [Outcome.err.injEq] at h
      subst h
      exact v3TryFrom_de dg e' hm
    | panic w => rw [hm] at h; cases h


end GufoSnmp
