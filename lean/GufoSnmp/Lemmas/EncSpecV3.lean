import GufoSnmp.Lemmas.EncSpec
/-!
# Encoder specification of the v3 message layer (with the HMAC bookmark)
-/
namespace GufoSnmp
open Gen Outcome

/-- like `specOut`, the resulting buffer carries bookmark `bm` -/
def specOutB (b : Buf) (enc : Bytes) (bm : Nat) : Outcome Buf :=
  if b.len + enc.length ≤ Buf.cap then .ok { cells := enc.map some ++ b.cells, bookmark := bm }
  else .err .OutOfBuffer

theorem specOut_eq_B (b : Buf) (enc : Bytes) : specOut b enc = specOutB b enc b.bookmark := rfl

theorem bind_specB {x : Outcome Buf} {b : Buf} {e1 e2 : Bytes} {bm1 bm2 : Nat} {f : Buf → Outcome Buf}
    (h1 : x = specOutB b e1 bm1)
    (h2 : (Buf.mk (e1.map some ++ b.cells) bm1).Inv →
      f ⟨e1.map some ++ b.cells, bm1⟩ = specOutB ⟨e1.map some ++ b.cells, bm1⟩ e2 bm2) :
    (x >>= f) = specOutB b (e2 ++ e1) bm2 := by
  rw [h1]
  unfold specOutB at *
  have hl : b.len = b.cells.length := rfl
  by_cases hf : b.len + e1.length ≤ Buf.cap
  · rw [if_pos hf]
    simp only [bind_ok]
    rw [h2 (by simp only [Buf.Inv, List.length_append, List.length_map]; omega)]
    simp only [Buf.len, List.length_append, List.length_map, List.map_append, List.append_assoc]
    split <;> split
    · rfl
    · exfalso; omega
    · exfalso; omega
    · rfl
  · rw [if_neg hf]
    simp only [bind_err, List.length_append]
    rw [if_neg (by omega)]

/-- a bookmark-preserving step after a bookmarked prefix -/
theorem bind_specB' {x : Outcome Buf} {b : Buf} {e1 e2 : Bytes} {bm1 : Nat} {f : Buf → Outcome Buf}
    (h1 : x = specOutB b e1 bm1)
    (h2 : ∀ b1 : Buf, b1.Inv → f b1 = specOut b1 e2) :
    (x >>= f) = specOutB b (e2 ++ e1) bm1 :=
  bind_specB h1 (fun hi => by rw [h2 _ hi]; rfl)

/-- `USM` parameters as written: every OCTET STRING field is `04 len content` (the explicit
`EMPTY_BER` constant is the same two octets) -/
def encUsm (u : Usm) : Bytes :=
  tlvBytes 0x30
    (tlvBytes (UInt8.ofNat tagOctetString) u.engineId ++ (encInt u.engineBoots ++ (encInt u.engineTime ++
      (tlvBytes (UInt8.ofNat tagOctetString) u.userName ++ (tlvBytes (UInt8.ofNat tagOctetString) u.authParams ++
        tlvBytes (UInt8.ofNat tagOctetString) u.privacyParams)))))

theorem pushOctetsOrEmpty_spec (b : Buf) (hb : b.Inv) (d : Bytes) :
    pushOctetsOrEmpty b d = specOut b (tlvBytes (UInt8.ofNat tagOctetString) d) := by
  unfold pushOctetsOrEmpty
  split
  · rename_i he
    have : d = [] := by simpa using he
    subst this
    rw [push_spec b hb]
    rfl
  · exact pushTagged_spec b hb _ d

/-- absolute bookmark `pushUsm` leaves behind: position of the auth-parameter TLV plus 2 -/
def usmBookmark (b : Buf) (u : Usm) : Nat :=
  if u.authParams.isEmpty then b.bookmark
  else Buf.cap - (b.len + (tlvBytes (UInt8.ofNat tagOctetString) u.privacyParams).length
        + (tlvBytes (UInt8.ofNat tagOctetString) u.authParams).length) + 2

theorem setBookmark_ok (b : Buf) (d : Nat) (hd : d < 2 ^ 32) : b.setBookmark d = .ok { b with bookmark := b.pos + d } := by
  unfold Buf.setBookmark
  have : b.pos ≤ Buf.cap := by unfold Buf.pos; omega
  have hc : Buf.cap < 2 ^ 32 := by decide
  rw [if_pos (by omega)]

theorem pushUsm_spec (b : Buf) (hb : b.Inv) (u : Usm) :
    pushUsm b u = specOutB b (encUsm u) (usmBookmark b u) := by
  unfold pushUsm encUsm
  have htlv : ∀ (t : UInt8) (x : Bytes), tlvBytes t x = tagLenBytes t x.length ++ x := fun _ _ => rfl
  rw [htlv 0x30]
  -- privacy parameters
  have s1 : pushOctetsOrEmpty b u.privacyParams
      = specOutB b (tlvBytes (UInt8.ofNat tagOctetString) u.privacyParams) b.bookmark := by
    rw [pushOctetsOrEmpty_spec b hb]; rfl
  -- auth parameters (+ bookmark)
  have s2 : (pushOctetsOrEmpty b u.privacyParams >>= fun b =>
        (if u.authParams.isEmpty then b.push [UInt8.ofNat tagOctetString, 0]
         else do
           let b ← b.pushTagged (UInt8.ofNat tagOctetString) u.authParams
           b.setBookmark 2))
      = specOutB b (tlvBytes (UInt8.ofNat tagOctetString) u.authParams
          ++ tlvBytes (UInt8.ofNat tagOctetString) u.privacyParams) (usmBookmark b u) := by
    refine bind_specB s1 (fun hi => ?_)
    unfold usmBookmark
    by_cases he : u.authParams.isEmpty
    · rw [if_pos he, if_pos he]
      have : u.authParams = [] := by simpa using he
      rw [this, push_spec _ hi]
      rfl
    · rw [if_neg he, if_neg he, pushTagged_spec _ hi]
      unfold specOut specOutB
      simp only [Buf.len, List.length_append, List.length_map]
      split
      · rename_i hfit
        simp only [bind_ok]
        rw [setBookmark_ok _ _ (by decide)]
        simp only [Buf.prepend, Buf.pos, List.length_append, List.length_map, Buf.len]
        congr 2
        omega
      · rfl
  have s3 := bind_specB' (f := fun b1 => b1.pushTagged (UInt8.ofNat tagOctetString) u.userName) s2
    (fun b1 hi => pushTagged_spec b1 hi _ _)
  have s4 := bind_specB' (f := fun b1 => pushInt b1 u.engineTime) s3 (fun b1 hi => pushInt_spec b1 hi _)
  have s5 := bind_specB' (f := fun b1 => pushInt b1 u.engineBoots) s4 (fun b1 hi => pushInt_spec b1 hi _)
  have s6 := bind_specB' (f := fun b1 => pushOctetsOrEmpty b1 u.engineId) s5
    (fun b1 hi => pushOctetsOrEmpty_spec b1 hi _)
  have s7 := bind_specB (bm2 := usmBookmark b u)
    (f := fun b1 => usub b1.len b.len >>= fun n => b1.pushTagLen 0x30 n) s6 (fun hi => by
      rw [usub_ok (by simp only [Buf.len, List.length_append, List.length_map]; omega)]
      simp only [bind_ok]
      rw [pushTagLen_spec _ hi]
      unfold specOut specOutB
      simp only [Buf.len, List.length_append, List.length_map, Buf.prepend]
      have : (tlvBytes (UInt8.ofNat tagOctetString) u.engineId).length + ((encInt u.engineBoots).length
          + ((encInt u.engineTime).length + ((tlvBytes (UInt8.ofNat tagOctetString) u.userName).length
          + ((tlvBytes (UInt8.ofNat tagOctetString) u.authParams).length
          + (tlvBytes (UInt8.ofNat tagOctetString) u.privacyParams).length)))) + b.cells.length - b.cells.length
          = (tlvBytes (UInt8.ofNat tagOctetString) u.engineId).length + ((encInt u.engineBoots).length
          + ((encInt u.engineTime).length + ((tlvBytes (UInt8.ofNat tagOctetString) u.userName).length
          + ((tlvBytes (UInt8.ofNat tagOctetString) u.authParams).length
          + (tlvBytes (UInt8.ofNat tagOctetString) u.privacyParams).length)))) := by omega
      rw [this])
  simp only [List.length_append] at s7 ⊢
  rw [← s7]
  simp only [Outcome.bind_assoc]

end GufoSnmp

namespace GufoSnmp
open Gen Outcome

def encScoped (s : ScopedPdu) : Option Bytes :=
  (encPdu s.pdu).map (fun p =>
    tlvBytes 0x30 (tlvBytes (UInt8.ofNat tagOctetString) s.engineId ++ ([UInt8.ofNat tagOctetString, 0] ++ p)))

theorem pushScoped_spec (b : Buf) (hb : b.Inv) (s : ScopedPdu) (enc : Bytes) (h : encScoped s = some enc) :
    pushScoped b s = specOut b enc := by
  unfold encScoped at h
  cases hp : encPdu s.pdu with
  | none => rw [hp] at h; cases h
  | some p =>
    rw [hp] at h; simp only [Option.map_some, Option.some.injEq] at h; subst h
    unfold pushScoped
    have h1 : (pushPdu b s.pdu >>= fun b1 => b1.push [UInt8.ofNat tagOctetString, 0])
        = specOut b ([UInt8.ofNat tagOctetString, 0] ++ p) :=
      bind_spec (f := fun b1 => b1.push [UInt8.ofNat tagOctetString, 0]) (pushPdu_spec b hb s.pdu p hp)
        (fun hi => push_spec _ hi _)
    have h2 : ((pushPdu b s.pdu >>= fun b1 => b1.push [UInt8.ofNat tagOctetString, 0])
        >>= fun b2 => pushOctetsOrEmpty b2 s.engineId)
        = specOut b (tlvBytes (UInt8.ofNat tagOctetString) s.engineId ++ ([UInt8.ofNat tagOctetString, 0] ++ p)) :=
      bind_spec (f := fun b2 => pushOctetsOrEmpty b2 s.engineId) h1 (fun hi => pushOctetsOrEmpty_spec _ hi _)
    have h3 := wrap_spec (b := b) 0x30 h2
    rw [← h3]
    simp only [Outcome.bind_assoc]

def encMsgData : MsgData → Option Bytes
  | .plaintext s => encScoped s
  | .encrypted ct => some (tlvBytes (UInt8.ofNat tagOctetString) ct)

theorem pushMsgData_spec (b : Buf) (hb : b.Inv) (d : MsgData) (enc : Bytes) (h : encMsgData d = some enc) :
    pushMsgData b d = specOut b enc := by
  cases d with
  | plaintext s => exact pushScoped_spec b hb s enc h
  | encrypted ct =>
    simp only [encMsgData, Option.some.injEq] at h; subst h
    exact pushTagged_spec b hb _ ct

def flagOctet (m : V3Msg) : Nat :=
  (if m.flagAuth then flagAuth else 0) + (if m.flagPriv then flagPriv else 0) + (if m.flagReport then flagReport else 0)

/-- content of msgGlobalData: msgID, msgMaxSize, msgFlags, msgSecurityModel -/
def v3HdrContent (m : V3Msg) : Bytes :=
  encInt m.msgId ++ (encInt v3MaxSize ++
    (tagLenBytes (UInt8.ofNat tagOctetString) 1 ++ ([UInt8.ofNat (flagOctet m)] ++
      [UInt8.ofNat tagInt, 1, UInt8.ofNat usmModel])))

/-- msgSecurityParameters (OCTET STRING around the USM SEQUENCE) followed by msgData -/
def v3Tail (m : V3Msg) (dataBytes : Bytes) : Bytes :=
  tlvBytes (UInt8.ofNat tagOctetString) (encUsm m.usm) ++ dataBytes

def encV3Header (m : V3Msg) : Bytes := tlvBytes 0x30 (v3HdrContent m)

def encV3Body (m : V3Msg) (dataBytes : Bytes) : Bytes :=
  [UInt8.ofNat tagInt, 1, UInt8.ofNat snmpV3] ++ (encV3Header m ++ v3Tail m dataBytes)

def encV3 (m : V3Msg) : Option Bytes :=
  (encMsgData m.data).map (fun d => tlvBytes 0x30 (encV3Body m d))

/-- bookmark after serialising a whole v3 message into an empty buffer -/
def v3Bookmark (b : Buf) (m : V3Msg) (dataBytes : Bytes) : Nat :=
  usmBookmark (b.prepend dataBytes) m.usm

theorem pushV3_spec (b : Buf) (hb : b.cells = []) (m : V3Msg) (d enc : Bytes) (hd : encMsgData m.data = some d)
    (he : encV3 m = some enc) : pushV3 b m = specOutB b enc (v3Bookmark b m d) := by
  unfold encV3 at he
  rw [hd] at he; simp only [Option.map_some, Option.some.injEq] at he; subst he
  have hinv : b.Inv := by simp [Buf.Inv, hb]
  unfold pushV3
  have s1 : pushMsgData b m.data = specOutB b d b.bookmark := by
    rw [pushMsgData_spec b hinv m.data d hd]; rfl
  -- USM wrapped into an OCTET STRING
  have s2 : (pushMsgData b m.data >>= fun b1 => pushUsm b1 m.usm >>= fun b2 =>
      usub b2.len b1.len >>= fun n => b2.pushTagLen (UInt8.ofNat tagOctetString) n)
      = specOutB b (tlvBytes (UInt8.ofNat tagOctetString) (encUsm m.usm) ++ d) (v3Bookmark b m d) := by
    refine bind_specB s1 (fun hi => ?_)
    have hu := pushUsm_spec ⟨d.map some ++ b.cells, b.bookmark⟩ hi m.usm
    have hw := bind_specB (bm2 := usmBookmark ⟨d.map some ++ b.cells, b.bookmark⟩ m.usm)
      (f := fun b2 => usub b2.len (Buf.mk (d.map some ++ b.cells) b.bookmark).len >>= fun n =>
        b2.pushTagLen (UInt8.ofNat tagOctetString) n) hu (fun hi2 => by
        rw [usub_ok (by simp only [Buf.len, List.length_append, List.length_map]; omega)]
        simp only [bind_ok]
        rw [pushTagLen_spec _ hi2]
        unfold specOut specOutB
        simp only [Buf.len, List.length_append, List.length_map, Buf.prepend]
        have : (encUsm m.usm).length + (d.length + b.cells.length) - (d.length + b.cells.length)
            = (encUsm m.usm).length := by omega
        rw [this])
    unfold tlvBytes v3Bookmark Buf.prepend
    exact hw
  -- msgGlobalData on any intermediate buffer
  have hHdr : ∀ b2 : Buf, b2.Inv →
      (b2.push [UInt8.ofNat tagInt, 1, UInt8.ofNat usmModel] >>= fun b3 =>
        b3.pushU8 (UInt8.ofNat (flagOctet m)) >>= fun b4 =>
        b4.pushTagLen (UInt8.ofNat tagOctetString) 1 >>= fun b5 =>
        pushInt b5 v3MaxSize >>= fun b6 => pushInt b6 m.msgId >>= fun b7 =>
        usub b7.len b2.len >>= fun n => b7.pushTagLen 0x30 n) = specOut b2 (encV3Header m) := by
    intro b2 hi2
    have t1 := bind_spec (f := fun b3 => b3.pushU8 (UInt8.ofNat (flagOctet m)))
      (push_spec b2 hi2 [UInt8.ofNat tagInt, 1, UInt8.ofNat usmModel])
      (fun hi => pushU8_spec _ hi (UInt8.ofNat (flagOctet m)))
    have t2 := bind_spec (f := fun b4 => b4.pushTagLen (UInt8.ofNat tagOctetString) 1) t1
      (fun hi => pushTagLen_spec _ hi _ _)
    have t3 := bind_spec (f := fun b5 => pushInt b5 v3MaxSize) t2 (fun hi => pushInt_spec _ hi _)
    have t4 := bind_spec (f := fun b6 => pushInt b6 m.msgId) t3 (fun hi => pushInt_spec _ hi _)
    have t5 := wrap_spec (b := b2) 0x30 t4
    unfold encV3Header v3HdrContent
    rw [← t5]
    simp only [Outcome.bind_assoc, List.append_assoc]
  have s3 := bind_specB' (f := fun b2 =>
      (b2.push [UInt8.ofNat tagInt, 1, UInt8.ofNat usmModel] >>= fun b3 =>
        b3.pushU8 (UInt8.ofNat (flagOctet m)) >>= fun b4 =>
        b4.pushTagLen (UInt8.ofNat tagOctetString) 1 >>= fun b5 =>
        pushInt b5 v3MaxSize >>= fun b6 => pushInt b6 m.msgId >>= fun b7 =>
        usub b7.len b2.len >>= fun n => b7.pushTagLen 0x30 n)) s2 hHdr
  have s4 := bind_specB' (f := fun b1 => b1.push [UInt8.ofNat tagInt, 1, UInt8.ofNat snmpV3]) s3
    (fun b1 hi => push_spec b1 hi _)
  have hbody : [UInt8.ofNat tagInt, 1, UInt8.ofNat snmpV3] ++ (encV3Header m ++
      (tlvBytes (UInt8.ofNat tagOctetString) (encUsm m.usm) ++ d)) = encV3Body m d := rfl
  rw [hbody] at s4
  have s5 := bind_specB (bm2 := v3Bookmark b m d) (e2 := tagLenBytes 0x30 (encV3Body m d).length)
    (f := fun b1 => b1.pushTagLen 0x30 b1.len) s4 (fun hi => by
    rw [pushTagLen_spec _ hi]
    have : (Buf.mk ((encV3Body m d).map some ++ b.cells) (v3Bookmark b m d)).len = (encV3Body m d).length := by
      simp only [Buf.len, List.length_append, List.length_map, hb, List.length_nil, Nat.add_zero]
    rw [this]
    rfl)
  have hfinal : tlvBytes 0x30 (encV3Body m d) = tagLenBytes 0x30 (encV3Body m d).length ++ encV3Body m d := rfl
  rw [hfinal, ← s5]
  simp only [Outcome.bind_assoc, flagOctet]

end GufoSnmp
