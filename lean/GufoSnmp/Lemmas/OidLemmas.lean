import GufoSnmp.Model.OidText
import GufoSnmp.Spec.Der
import GufoSnmp.Lemmas.IntCodec
/-!
# OID text lemmas: the five-way arc encoder is minimal base-128; rendering and parsing are inverse
-/
namespace GufoSnmp
open Gen Outcome Spec

theorem b128hi_zero : b128hi 0 = [] := by unfold b128hi; simp

theorem b128hi_pos (n : Nat) (h : n ≠ 0) : b128hi n = b128hi (n / 128) ++ [UInt8.ofNat (n % 128 + 128)] := by
  rw [b128hi]; simp [h]

/-- the library's five-way branch is the minimal base-128 encoding for every 32-bit arc -/
theorem encArc_eq_b128 (n : Nat) (hn : n < 2 ^ 32) : encArc n = b128 n := by
  unfold encArc b128
  split
  · rename_i h
    have : n / 128 = 0 := by omega
    rw [this, b128hi_zero, Nat.mod_eq_of_lt (by omega)]; rfl
  · split
    · rename_i h1 h2
      rw [b128hi_pos _ (by omega)]
      have : n / 128 / 128 = 0 := by omega
      rw [this, b128hi_zero]
      have e : n / 128 % 128 = n / 2 ^ 7 := by omega
      simp only [e, List.nil_append, List.cons_append]
    · split
      · rename_i h1 h2 h3
        rw [b128hi_pos _ (by omega), b128hi_pos _ (by omega)]
        have : n / 128 / 128 / 128 = 0 := by omega
        rw [this, b128hi_zero]
        have e1 : n / 128 / 128 % 128 = n / 2 ^ 14 := by omega
        have e2 : n / 128 % 128 = n / 2 ^ 7 % 128 := by omega
        simp only [e1, e2, List.nil_append, List.cons_append]
      · split
        · rename_i h1 h2 h3 h4
          rw [b128hi_pos _ (by omega), b128hi_pos _ (by omega), b128hi_pos _ (by omega)]
          have : n / 128 / 128 / 128 / 128 = 0 := by omega
          rw [this, b128hi_zero]
          have e1 : n / 128 / 128 / 128 % 128 = n / 2 ^ 21 := by omega
          have e2 : n / 128 / 128 % 128 = n / 2 ^ 14 % 128 := by omega
          have e3 : n / 128 % 128 = n / 2 ^ 7 % 128 := by omega
          simp only [e1, e2, e3, List.nil_append, List.cons_append]
        · rename_i h1 h2 h3 h4
          rw [b128hi_pos _ (by omega), b128hi_pos _ (by omega), b128hi_pos _ (by omega),
            b128hi_pos _ (by omega)]
          have : n / 128 / 128 / 128 / 128 / 128 = 0 := by omega
          rw [this, b128hi_zero]
          have e0 : n / 128 / 128 / 128 / 128 % 128 = n / 2 ^ 28 % 128 := by omega
          have e1 : n / 128 / 128 / 128 % 128 = n / 2 ^ 21 % 128 := by omega
          have e2 : n / 128 / 128 % 128 = n / 2 ^ 14 % 128 := by omega
          have e3 : n / 128 % 128 = n / 2 ^ 7 % 128 := by omega
          simp only [e0, e1, e2, e3, List.nil_append, List.cons_append]

/-- the model's decimal rendering is the canonical one -/
theorem decimal_eq_digits : ∀ (n : Nat), decimal n = digits n := by
  intro n
  induction n using Nat.strongRecOn with
  | _ n ih =>
    unfold decimal digits
    split
    · rfl
    · rw [ih (n / 10) (by omega)]

theorem isDigit_ofNat (d : Nat) (h : d < 10) : isDigit (UInt8.ofNat (48 + d)) = true := by
  unfold isDigit
  rw [ofNat_toNat (by omega)]
  simp; omega

theorem digits_all : ∀ (n : Nat), (digits n).all isDigit = true ∧ digits n ≠ [] := by
  intro n
  induction n using Nat.strongRecOn with
  | _ n ih =>
    unfold digits
    split
    · rename_i h
      refine ⟨?_, by simp⟩
      simp only [List.all_cons, List.all_nil, Bool.and_true]
      exact isDigit_ofNat n h
    · rename_i h
      obtain ⟨h1, _⟩ := ih (n / 10) (by omega)
      refine ⟨?_, by simp⟩
      rw [List.all_append, h1]
      simp only [List.all_cons, List.all_nil, Bool.and_true, Bool.true_and]
      exact isDigit_ofNat (n % 10) (by omega)

theorem digitsVal_append (ds : Bytes) (d : UInt8) :
    digitsVal (ds ++ [d]) = digitsVal ds * 10 + (d.toNat - 48) := by
  simp [digitsVal, List.foldl_append]

theorem digitsVal_digits : ∀ (n : Nat), digitsVal (digits n) = n := by
  intro n
  induction n using Nat.strongRecOn with
  | _ n ih =>
    unfold digits
    split
    · rename_i h
      simp only [digitsVal, List.foldl_cons, List.foldl_nil]
      rw [ofNat_toNat (by omega)]; omega
    · rename_i h
      rw [digitsVal_append, ih (n / 10) (by omega), ofNat_toNat (by omega)]
      omega

theorem digits_head_not_plus (n : Nat) : ∀ r, digits n ≠ 43 :: r := by
  intro r h
  obtain ⟨hall, _⟩ := digits_all n
  rw [h] at hall
  simp [isDigit] at hall

theorem stripPlus_digits (n : Nat) : stripPlus (digits n) = digits n := by
  unfold stripPlus
  split
  · rename_i r heq; exact absurd heq (digits_head_not_plus n r)
  · rfl

theorem parseArcText_digits (n : Nat) (hn : n < 2 ^ 32) : parseArcText (digits n) = some n := by
  unfold parseArcText
  obtain ⟨hall, hne⟩ := digits_all n
  rw [stripPlus_digits]
  have he : (digits n).isEmpty = false := by
    cases h : digits n with
    | nil => exact absurd h hne
    | cons _ _ => rfl
  rw [he, hall, digitsVal_digits]
  simp only [Bool.not_true, Bool.or_self, Bool.false_eq_true, if_false]
  rw [if_pos hn]

end GufoSnmp

namespace GufoSnmp
open Gen Outcome Spec

theorem splitDots_ne_nil : ∀ (s : Bytes), splitDots s ≠ []
  | [] => by simp [splitDots]
  | c :: rest => by
    unfold splitDots
    split
    · simp
    · split <;> simp

/-- a dot-free prefix followed by a dot is the first part -/
theorem splitDots_prefix : ∀ (p rest : Bytes), (∀ c ∈ p, c.toNat ≠ 46) →
    splitDots (p ++ 46 :: rest) = p :: splitDots rest
  | [], rest, _ => by
    simp only [List.nil_append]
    rw [splitDots]
    rw [if_pos (by decide)]
  | c :: p, rest, h => by
    simp only [List.cons_append]
    rw [splitDots]
    rw [if_neg (h c (by simp))]
    rw [splitDots_prefix p rest (fun x hx => h x (by simp [hx]))]

theorem splitDots_nodot : ∀ (p : Bytes), (∀ c ∈ p, c.toNat ≠ 46) → splitDots p = [p]
  | [], _ => by simp [splitDots]
  | c :: p, h => by
    rw [splitDots]
    rw [if_neg (h c (by simp)), splitDots_nodot p (fun x hx => h x (by simp [hx]))]

theorem digits_nodot (n : Nat) : ∀ c ∈ digits n, c.toNat ≠ 46 := by
  intro c hc
  have := (digits_all n).1
  rw [List.all_eq_true] at this
  have hd := this c hc
  unfold isDigit at hd
  simp at hd; omega

theorem splitDots_dotted : ∀ (arcs : List Nat), arcs ≠ [] → splitDots (dotted arcs) = arcs.map digits
  | [], h => absurd rfl h
  | [a], _ => by simp [dotted, splitDots_nodot _ (digits_nodot a)]
  | a :: b :: rest, _ => by
    have : dotted (a :: b :: rest) = digits a ++ 46 :: dotted (b :: rest) := by simp [dotted]
    rw [this, splitDots_prefix _ _ (digits_nodot a), splitDots_dotted (b :: rest) (by simp)]
    rfl

theorem parseArcs_digits : ∀ (arcs : List Nat), (∀ a ∈ arcs, a < 2 ^ 32) →
    parseArcs (arcs.map digits) = some arcs
  | [], _ => rfl
  | a :: rest, h => by
    simp only [List.map_cons, parseArcs]
    rw [parseArcText_digits a (h a (by simp)), parseArcs_digits rest (fun x hx => h x (by simp [hx]))]
    rfl

/-- **accept**: canonical text of a valid OID is accepted and encoded as its DER content -/
theorem oidFromStr_dotted (a0 a1 : Nat) (rest : List Nat) (h0 : a0 ≤ 2) (h1 : a1 ≤ 39)
    (hr : ∀ a ∈ rest, a < 2 ^ 32) :
    (oidFromStr (dotted (a0 :: a1 :: rest))).bind (fun b => .ok (some b)) = .ok (derOid (a0 :: a1 :: rest)) := by
  unfold oidFromStr
  rw [splitDots_dotted _ (by simp)]
  simp only [List.map_cons]
  rw [parseArcText_digits a0 (by omega), parseArcText_digits a1 (by omega)]
  simp only
  rw [if_neg (by simp; omega), parseArcs_digits rest hr]
  simp only [derOid, Outcome.bind]
  congr 3
  apply congrArg
  apply List.map_congr_left
  intro a ha
  exact encArc_eq_b128 a (hr a ha)

theorem renderArcs_hi : ∀ (m : Nat), m < 2 ^ 25 → ∀ (t : Bytes),
    renderArcs (b128hi m ++ t) 0 = renderArcs t m := by
  intro m
  induction m using Nat.strongRecOn with
  | _ m ih =>
    intro hm t
    by_cases h0 : m = 0
    · subst h0; rw [b128hi_zero]; rfl
    · rw [b128hi_pos m h0, List.append_assoc, ih (m / 128) (by omega) (by omega)]
      simp only [List.singleton_append, renderArcs]
      have e : (UInt8.ofNat (m % 128 + 128)).toNat = m % 128 + 128 := ofNat_toNat (by omega)
      rw [e, if_neg (by omega)]
      congr 1
      omega

theorem renderArcs_b128 (n : Nat) (hn : n < 2 ^ 32) (rest : Bytes) :
    renderArcs (b128 n ++ rest) 0 = 46 :: digits n ++ renderArcs rest 0 := by
  unfold b128
  rw [List.append_assoc, renderArcs_hi (n / 128) (by omega)]
  simp only [List.singleton_append, renderArcs]
  have e : (UInt8.ofNat (n % 128)).toNat = n % 128 := ofNat_toNat (by omega)
  rw [e, if_pos (by omega)]
  have : n / 128 * 128 % 2 ^ 32 + n % 128 % 128 = n := by omega
  rw [this, decimal_eq_digits]

/-- the dotted tail: `.a.b.c` -/
def dottedTail (arcs : List Nat) : Bytes := (arcs.map (fun a => 46 :: digits a)).flatten

theorem dotted_cons (a : Nat) (rest : List Nat) : dotted (a :: rest) = digits a ++ dottedTail rest := by
  induction rest generalizing a with
  | nil => simp [dotted, dottedTail]
  | cons b rest ih =>
    have : dotted (a :: b :: rest) = digits a ++ [46] ++ dotted (b :: rest) := by simp [dotted]
    rw [this, ih b]
    simp [dottedTail, List.append_assoc]

theorem renderArcs_flatten : ∀ (arcs : List Nat), (∀ a ∈ arcs, a < 2 ^ 32) →
    renderArcs (arcs.map b128).flatten 0 = dottedTail arcs
  | [], _ => rfl
  | a :: rest, h => by
    simp only [List.map_cons, List.flatten_cons]
    rw [renderArcs_b128 a (h a (by simp)), renderArcs_flatten rest (fun x hx => h x (by simp [hx]))]
    simp [dottedTail]

/-- **print**: the DER content of a valid OID is rendered as its canonical text -/
theorem oidToStr_der (a0 a1 : Nat) (rest : List Nat) (h0 : a0 ≤ 2) (h1 : a1 ≤ 39)
    (hr : ∀ a ∈ rest, a < 2 ^ 32) (b : Bytes) (hb : derOid (a0 :: a1 :: rest) = some b) :
    oidToStr b = .ok (dotted (a0 :: a1 :: rest)) := by
  simp only [derOid, Option.some.injEq] at hb
  subst hb
  unfold oidToStr
  have e : (UInt8.ofNat (40 * a0 + a1)).toNat = 40 * a0 + a1 := ofNat_toNat (by omega)
  simp only [e]
  have d0 : (40 * a0 + a1) / 40 = a0 := by omega
  have d1 : (40 * a0 + a1) % 40 = a1 := by omega
  rw [d0, d1, renderArcs_flatten rest hr, decimal_eq_digits, decimal_eq_digits, dotted_cons]
  simp [List.append_assoc, dottedTail]

/-- what a single part of the text denotes -/
theorem parseArcText_some (p : Bytes) (n : Nat) (h : parseArcText p = some n) :
    (stripPlus p) ≠ [] ∧ (stripPlus p).all isDigit = true ∧ digitsVal (stripPlus p) = n ∧ n < 2 ^ 32 := by
  unfold parseArcText at h
  split at h
  · cases h
  · rename_i hc
    split at h
    · rename_i hlt
      cases h
      simp only [Bool.or_eq_true, Bool.not_eq_true', not_or, Bool.not_eq_false] at hc
      refine ⟨?_, hc.2, rfl, hlt⟩
      intro he; rw [he] at hc; simp at hc
    · cases h

/-- **sound**: whatever text is accepted, the bytes are the DER content of the arcs its parts
denote, with a first arc ≤ 2 and a second arc ≤ 39 -/
theorem oidFromStr_sound (s b : Bytes) (h : oidFromStr s = .ok b) :
    ∃ a0 a1 rest, parseArcs (splitDots s) = some (a0 :: a1 :: rest) ∧ a0 ≤ 2 ∧ a1 ≤ 39 ∧
      (∀ a ∈ rest, a < 2 ^ 32) ∧ derOid (a0 :: a1 :: rest) = some b := by
  unfold oidFromStr at h
  split at h
  · rename_i p1 p2 restParts hsplit
    split at h
    · rename_i first second hf hs
      split at h
      · cases h
      · rename_i hc
        split at h
        · rename_i arcs harcs
          cases h
          have hbounds : ∀ (l : List Bytes) (as : List Nat), parseArcs l = some as → ∀ a ∈ as, a < 2 ^ 32 := by
            intro l
            induction l with
            | nil => intro as h a ha; simp [parseArcs] at h; subst h; simp at ha
            | cons p ps ih =>
              intro as h a ha
              simp only [parseArcs] at h
              cases hp : parseArcText p with
              | none => rw [hp] at h; cases h
              | some v =>
                rw [hp] at h
                cases hps : parseArcs ps with
                | none => rw [hps] at h; cases h
                | some more =>
                  rw [hps] at h
                  cases h
                  simp only [List.mem_cons] at ha
                  rcases ha with rfl | ha
                  · exact (parseArcText_some p _ hp).2.2.2
                  · exact ih more hps a ha
          have hr := hbounds restParts arcs harcs
          simp only [Bool.or_eq_true, decide_eq_true_eq, not_or, Nat.not_lt] at hc
          refine ⟨first, second, arcs, ?_, by omega, by omega, hr, ?_⟩
          · rw [hsplit]; simp only [parseArcs, hf, hs, harcs]; rfl
          · simp only [derOid]
            congr 2
            apply congrArg
            apply List.map_congr_left
            intro a ha
            exact (encArc_eq_b128 a (hr a ha)).symm
        · cases h
    · cases h
  · cases h

/-- `oidFromStr` never panics, and every refusal is `InvalidData` -/
theorem oidFromStr_total (s : Bytes) : (∃ b, oidFromStr s = .ok b) ∨ oidFromStr s = .err .InvalidData := by
  unfold oidFromStr
  split
  · split
    · split
      · exact Or.inr rfl
      · split
        · exact Or.inl ⟨_, rfl⟩
        · exact Or.inr rfl
    · exact Or.inr rfl
  · exact Or.inr rfl

end GufoSnmp
