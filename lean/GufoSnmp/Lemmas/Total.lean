import GufoSnmp.Model.Op
/-!
# Totality lemmas: no function on the receive path can reach a `panic` outcome
-/
namespace GufoSnmp
open Gen Outcome

/-- `x` does not panic -/
abbrev NP {α} (x : Outcome α) : Prop := x.isPanic = false

@[simp] theorem np_ok {α} (a : α) : NP (Outcome.ok a) := rfl
@[simp] theorem np_err {α} (e : SnmpError) : NP (Outcome.err e : Outcome α) := rfl
@[simp] theorem np_panic {α} (w : String) : ¬ NP (Outcome.panic w : Outcome α) := by simp [NP, isPanic]

theorem np_bind {α β} {x : Outcome α} {f : α → Outcome β}
    (hx : NP x) (hf : ∀ a, x = .ok a → NP (f a)) : NP (x >>= f) := bind_noPanic hx hf

theorem np_ite {α} {c : Prop} [Decidable c] {x y : Outcome α} (hx : c → NP x) (hy : ¬c → NP y) :
    NP (if c then x else y) := by
  split
  · exact hx ‹_›
  · exact hy ‹_›

/-! ## header -/

theorem tagLoop_np : ∀ (i : Bytes) (n : Nat), NP (tagLoop i n)
  | [], _ => rfl
  | t :: rest, n => by
    unfold tagLoop
    split
    · rfl
    · exact tagLoop_np rest _

theorem lenLoop_np : ∀ (k : Nat) (i : Bytes) (ln : Nat), NP (lenLoop k i ln)
  | 0, _, _ => rfl
  | _ + 1, [], _ => rfl
  | k + 1, b :: rest, ln => by
    unfold lenLoop
    exact lenLoop_np k rest _

theorem tagLoop_len : ∀ (i : Bytes) (n : Nat) (t : Nat) (r : Bytes),
    tagLoop i n = .ok (t, r) → r.length < i.length
  | [], _, _, _, h => by simp [tagLoop] at h
  | c :: rest, n, t, r, h => by
    unfold tagLoop at h
    split at h
    · cases h; simp
    · have := tagLoop_len rest _ t r h
      simp only [List.length_cons]; omega

theorem lenLoop_len : ∀ (k : Nat) (i : Bytes) (ln : Nat) (l : Nat) (r : Bytes),
    lenLoop k i ln = .ok (l, r) → r.length ≤ i.length
  | 0, _, _, _, _, h => by simp [lenLoop] at h; obtain ⟨_, rfl⟩ := h; exact Nat.le_refl _
  | _ + 1, [], _, _, _, h => by simp [lenLoop] at h
  | k + 1, b :: rest, ln, l, r, h => by
    unfold lenLoop at h
    have := lenLoop_len k rest _ l r h
    simp only [List.length_cons]; omega

theorem parseHeader_np (i : Bytes) : NP (parseHeader i) := by
  unfold parseHeader
  split
  · rfl
  · rfl
  · apply np_bind
    · split
      · exact tagLoop_np _ _
      · rfl
    · intro ⟨tag, r2⟩ _
      simp only
      split
      · rfl
      · apply np_bind
        · split
          · rfl
          · exact lenLoop_np _ _ _
        · intro ⟨l, r4⟩ _
          simp only
          split <;> rfl

/-- what a successful header parse guarantees: the declared content is available and at
least two octets were consumed -/
theorem parseHeader_ok {i : Bytes} {h : Header} {tail : Bytes} (hp : parseHeader i = .ok (h, tail)) :
    h.length ≤ tail.length ∧ tail.length + 2 ≤ i.length := by
  unfold parseHeader at hp
  split at hp
  · cases hp
  · cases hp
  · rename_i id r1 hne
    obtain ⟨⟨tag, r2⟩, h1, hp⟩ := bind_eq_ok hp
    simp only at hp
    have hr2 : r2.length ≤ r1.length := by
      split at h1
      · exact Nat.le_of_lt (tagLoop_len _ _ _ _ h1)
      · cases h1; exact Nat.le_refl _
    split at hp
    · cases hp
    · rename_i n r3
      obtain ⟨⟨l, r4⟩, h2, hp⟩ := bind_eq_ok hp
      simp only at hp
      have hr4 : r4.length ≤ r3.length := by
        split at h2
        · cases h2; exact Nat.le_refl _
        · exact lenLoop_len _ _ _ _ _ h2
      split at hp
      · cases hp
      · cases hp
        simp only [List.length_cons] at *
        constructor <;> omega

end GufoSnmp

namespace GufoSnmp
open Gen Outcome

/-! ## typed decoders: total once the declared content is available -/

/-- a decoder is safe when it cannot panic on a tail that holds the declared content -/
def Decoder.Safe {α} (d : Decoder α) : Prop :=
  ∀ (tail : Bytes) (h : Header), h.length ≤ tail.length → NP (d.decode tail h)

theorem idx_np {i : Bytes} {k : Nat} (h : k < i.length) : NP (idx i k) := by
  rw [idx_ok h]; rfl

theorem sliceTo_np {i : Bytes} {n : Nat} (h : n ≤ i.length) : NP (sliceTo i n) := by
  rw [sliceTo_ok h]; rfl

theorem sliceFrom_np {i : Bytes} {n : Nat} (h : n ≤ i.length) : NP (sliceFrom i n) := by
  rw [sliceFrom_ok h]; rfl

theorem decodeInt_np (tail : Bytes) (h : Header) (hl : h.length ≤ tail.length) :
    NP (decodeInt tail h) := by
  unfold decodeInt
  split
  · rfl
  · split
    · rfl
    · apply np_bind (idx_np (by omega))
      intro _ _; rfl

theorem decodeUnsigned_np (bits : Nat) (tail : Bytes) (h : Header) : NP (decodeUnsigned bits tail h) := rfl

theorem decodeBool_np (tail : Bytes) (h : Header) (hl : h.length ≤ tail.length) :
    NP (decodeBool tail h) := by
  unfold decodeBool
  split
  · rfl
  · apply np_bind (idx_np (by omega))
    intro _ _; rfl

theorem decodeNull_np (tail : Bytes) (h : Header) : NP (decodeNull tail h) := by
  unfold decodeNull; split <;> rfl

theorem decodeSlice_np (tail : Bytes) (h : Header) (hl : h.length ≤ tail.length) :
    NP (decodeSlice tail h) := sliceTo_np hl

theorem decodeIpAddress_np (tail : Bytes) (h : Header) (hl : h.length ≤ tail.length) :
    NP (decodeIpAddress tail h) := by
  unfold decodeIpAddress
  split
  · rfl
  · apply np_bind (idx_np (by omega)); intro _ _
    apply np_bind (idx_np (by omega)); intro _ _
    apply np_bind (idx_np (by omega)); intro _ _
    apply np_bind (idx_np (by omega)); intro _ _
    rfl

theorem slice_np {i : Bytes} {a b : Nat} (h1 : a ≤ b) (h2 : b ≤ i.length) : NP (slice i a b) := by
  unfold slice; rw [if_pos ⟨h1, h2⟩]; exact np_ok _

theorem decodeRealBinary_np (i : Bytes) (f : Nat) : NP (decodeRealBinary i f) := by
  unfold decodeRealBinary
  have hlay : NP (realExpLayout i f) := by
    unfold realExpLayout
    split
    · split
      · rfl
      · apply np_bind (idx_np (by omega)); intro _ _; rfl
    · rfl
  apply np_bind hlay; intro lay _
  simp only
  split
  · rfl
  · rename_i hc
    apply np_bind (slice_np (by omega) (by omega)); intro _ _
    apply np_bind (sliceFrom_np (by omega)); intro _ _
    split <;> rfl

theorem decodeReal_np (tail : Bytes) (h : Header) (hl : h.length ≤ tail.length) :
    NP (decodeReal tail h) := by
  unfold decodeReal
  split
  · rfl
  · rename_i hne
    apply np_bind (sliceTo_np hl); intro i hi
    rw [sliceTo_ok hl] at hi; cases hi
    have hlen : (tail.take h.length).length = h.length := by simp [List.length_take]; omega
    apply np_bind (idx_np (by omega)); intro fb _
    simp only
    split
    · exact decodeRealBinary_np _ _
    · split
      · apply np_bind (sliceFrom_np (by omega)); intro _ _
        split
        · split <;> rfl
        · split <;> rfl
        · split <;> rfl
        · rfl
      · repeat (first | rfl | split)

theorem intDecoder_safe : intDecoder.Safe := fun t h hl => decodeInt_np t h hl
theorem boolDecoder_safe : boolDecoder.Safe := fun t h hl => decodeBool_np t h hl
theorem nullDecoder_safe : nullDecoder.Safe := fun t h _ => decodeNull_np t h
theorem octetsDecoder_safe : octetsDecoder.Safe := fun t h hl => decodeSlice_np t h hl
theorem oidDecoder_safe : oidDecoder.Safe := fun t h hl => decodeSlice_np t h hl
theorem objDescDecoder_safe : objDescDecoder.Safe := fun t h hl => decodeSlice_np t h hl
theorem opaqueDecoder_safe : opaqueDecoder.Safe := fun t h hl => decodeSlice_np t h hl
theorem relOidDecoder_safe : relOidDecoder.Safe := fun t h hl => decodeSlice_np t h hl
theorem sequenceDecoder_safe : sequenceDecoder.Safe := fun t h hl => decodeSlice_np t h hl
theorem ipAddressDecoder_safe : ipAddressDecoder.Safe := fun t h hl => decodeIpAddress_np t h hl
theorem realDecoder_safe : realDecoder.Safe := fun t h hl => decodeReal_np t h hl
theorem counter32Decoder_safe : counter32Decoder.Safe := fun t h _ => decodeUnsigned_np 32 t h
theorem gauge32Decoder_safe : gauge32Decoder.Safe := fun t h _ => decodeUnsigned_np 32 t h
theorem timeticksDecoder_safe : timeticksDecoder.Safe := fun t h _ => decodeUnsigned_np 32 t h
theorem uinteger32Decoder_safe : uinteger32Decoder.Safe := fun t h _ => decodeUnsigned_np 32 t h
theorem counter64Decoder_safe : counter64Decoder.Safe := fun t h _ => decodeUnsigned_np 64 t h

/-- generic `from_ber` of a safe decoder never panics -/
theorem fromBer_np {α} (d : Decoder α) (hd : d.Safe) (i : Bytes) : NP (fromBer d i) := by
  unfold fromBer
  split
  · rfl
  · apply np_bind (parseHeader_np i)
    intro ⟨hdr, tail⟩ hp
    obtain ⟨hl, _⟩ := parseHeader_ok hp
    simp only
    split
    · rfl
    · apply np_bind (sliceFrom_np hl); intro _ _
      apply np_bind (hd tail hdr hl); intro _ _
      rfl

/-- a successful `from_ber` consumed at least two octets: `rest` is a proper suffix -/
theorem fromBer_rest {α} {d : Decoder α} {i : Bytes} {v : α} {rest : Bytes}
    (h : fromBer d i = .ok (v, rest)) : rest.length + 2 ≤ i.length := by
  unfold fromBer at h
  split at h
  · cases h
  · obtain ⟨⟨hdr, tail⟩, hp, h⟩ := bind_eq_ok h
    obtain ⟨hl, h2⟩ := parseHeader_ok hp
    simp only at h
    split at h
    · cases h
    · obtain ⟨r, hr, h⟩ := bind_eq_ok h
      obtain ⟨v', _, h⟩ := bind_eq_ok h
      cases h
      rw [sliceFrom_ok hl] at hr; cases hr
      simp only [List.length_drop]; omega

theorem optionFromBer_np (i : Bytes) : NP (optionFromBer i) := by
  unfold optionFromBer
  split
  · rfl
  · apply np_bind (parseHeader_np i)
    intro ⟨hdr, tail⟩ hp
    obtain ⟨hl, _⟩ := parseHeader_ok hp
    simp only
    split
    · rfl
    · apply np_bind (sliceFrom_np hl); intro _ _
      apply np_bind (sliceTo_np hl); intro _ _
      rfl

theorem decodeValue_np (tail : Bytes) (h : Header) (hl : h.length ≤ tail.length) :
    NP (decodeValue tail h) := by
  unfold decodeValue
  repeat' split
  all_goals first
    | rfl
    | (apply np_bind (decodeBool_np tail h hl); intro _ _; rfl)
    | (apply np_bind (decodeInt_np tail h hl); intro _ _; rfl)
    | (apply np_bind (decodeSlice_np tail h hl); intro _ _; rfl)
    | (apply np_bind (decodeNull_np tail h); intro _ _; rfl)
    | (apply np_bind (decodeReal_np tail h hl); intro _ _; rfl)
    | (apply np_bind (decodeIpAddress_np tail h hl); intro ⟨_, _, _, _⟩ _; rfl)
    | (apply np_bind (decodeUnsigned_np _ tail h); intro _ _; rfl)

theorem valueFromBer_np (i : Bytes) : NP (valueFromBer i) := by
  unfold valueFromBer
  apply np_bind (parseHeader_np i)
  intro ⟨hdr, tail⟩ hp
  obtain ⟨hl, _⟩ := parseHeader_ok hp
  simp only
  apply np_bind (decodeValue_np tail hdr hl); intro _ _
  apply np_bind (sliceFrom_np hl); intro _ _
  rfl

end GufoSnmp

namespace GufoSnmp
open Gen Outcome

/-! ## relative OIDs, PDUs, messages -/

theorem usub_np {a b : Nat} (h : b ≤ a) : NP (usub a b) := by
  unfold usub; rw [if_pos h]; exact np_ok _

theorem usub_ok {a b : Nat} (h : b ≤ a) : usub a b = .ok (a - b) := by
  unfold usub; rw [if_pos h]

theorem findSubelementLoop_lt (total : Nat) : ∀ (d : Bytes) (offset left start r : Nat),
    findSubelementLoop total d offset left start = some r → r < total
  | [], _, _, _, _, h => by simp [findSubelementLoop] at h
  | c :: rest, offset, left, start, r, h => by
    unfold findSubelementLoop at h
    split at h
    · split at h
      · cases h; assumption
      · cases h
    · split at h
      · exact findSubelementLoop_lt total rest _ _ _ r h
      · exact findSubelementLoop_lt total rest _ _ _ r h

theorem tryNormalize_np (rel oid : Bytes) : NP (tryNormalize rel oid) := by
  unfold tryNormalize
  split
  · rfl
  · rename_i hne
    have hlen : 1 ≤ oid.length := by
      cases oid with
      | nil => simp at hne
      | cons _ _ => simp
    apply np_bind (sliceFrom_np hlen); intro base hb
    rw [sliceFrom_ok hlen] at hb; cases hb
    apply np_bind (usub_np (by omega)); intro b2 hb2
    rw [usub_ok (by omega)] at hb2; cases hb2
    split
    · rename_i hlt
      apply np_bind (usub_np (by omega)); intro k hk
      rw [usub_ok (by omega)] at hk; cases hk
      apply np_bind (usub_np (by omega)); intro k2 hk2
      apply np_bind
      · apply sliceTo_np
        cases hf : findSubelement (oid.drop 1) k2 with
        | none => simp only [Option.getD_none]; omega
        | some r =>
          have := findSubelementLoop_lt _ _ _ _ _ _ hf
          simp only [Option.getD_some, List.length_drop] at *; omega
      · intro _ _; rfl
    · split
      · rfl
      · rename_i hl2
        apply np_bind (idx_np (by omega)); intro first _
        apply np_bind (idx_np (by omega)); intro second _
        split
        · rfl
        · rename_i hc
          simp only [Bool.or_eq_true, decide_eq_true_eq, Bool.and_eq_true, not_or, not_and, Nat.not_lt,
            Nat.not_le] at hc
          apply np_bind (usub_np (by omega)); intro _ _
          apply np_bind
          · unfold u8mul; rw [if_pos (by omega)]; exact np_ok _
          · intro m hm
            unfold u8mul at hm; rw [if_pos (by omega)] at hm; cases hm
            apply np_bind
            · unfold u8add; rw [if_pos (by omega)]; exact np_ok _
            · intro _ _
              apply np_bind (sliceFrom_np (by omega)); intro _ _
              rfl

theorem parseVar_np (i : Bytes) : NP (parseVar i) := by
  unfold parseVar
  apply np_bind (fromBer_np _ sequenceDecoder_safe i); intro ⟨vs, rest⟩ _
  apply np_bind (fromBer_np _ oidDecoder_safe vs); intro ⟨oid, tail⟩ _
  apply np_bind (fromBer_np _ nullDecoder_safe tail); intro _ _
  rfl

theorem parseVar_rest {i : Bytes} {oid rest : Bytes} (h : parseVar i = .ok (oid, rest)) :
    rest.length < i.length := by
  unfold parseVar at h
  obtain ⟨⟨vs, rest'⟩, h1, h⟩ := bind_eq_ok h
  obtain ⟨⟨oid', tail⟩, _, h⟩ := bind_eq_ok h
  obtain ⟨_, _, h⟩ := bind_eq_ok h
  cases h
  have := fromBer_rest h1
  omega

theorem parseVars_np (i : Bytes) : NP (parseVars i) := by
  induction hn : i.length using Nat.strongRecOn generalizing i with
  | _ n ih =>
    unfold parseVars
    split
    · rfl
    · split
      · rename_i oid rest hp
        have hlt := parseVar_rest hp
        rw [dif_pos hlt]
        have := ih rest.length (by omega) rest rfl
        split
        · rfl
        · rfl
        · rename_i w hw; rw [hw] at this; exact absurd this (np_panic w)
      · rfl
      · rename_i w hw
        have := parseVar_np i; rw [hw] at this; exact absurd this (np_panic w)

theorem parseRespVar_np (i : Bytes) (prev : Option Bytes) : NP (parseRespVar i prev) := by
  unfold parseRespVar
  apply np_bind (fromBer_np _ sequenceDecoder_safe i); intro ⟨vs, rest⟩ _
  simp only
  split
  · rfl
  · apply np_bind
    · split
      · exact fromBer_np _ oidDecoder_safe _
      · split
        · split
          · rfl
          · apply np_bind (fromBer_np _ relOidDecoder_safe _); intro ⟨rel, t⟩ _
            apply np_bind (tryNormalize_np _ _); intro _ _
            rfl
        · rfl
    · intro ⟨oid, tail⟩ _
      apply np_bind (valueFromBer_np tail); intro ⟨_, _⟩ _
      rfl

theorem parseRespVar_rest {i : Bytes} {prev : Option Bytes} {vb : VarBind} {rest : Bytes}
    (h : parseRespVar i prev = .ok (vb, rest)) : rest.length < i.length := by
  unfold parseRespVar at h
  obtain ⟨⟨vs, rest'⟩, h1, h⟩ := bind_eq_ok h
  simp only at h
  have := fromBer_rest h1
  split at h
  · cases h
  · obtain ⟨⟨oid, tail⟩, _, h⟩ := bind_eq_ok h
    obtain ⟨⟨v, _⟩, _, h⟩ := bind_eq_ok h
    cases h
    omega

theorem parseRespVars_np (i : Bytes) : ∀ prev, NP (parseRespVars i prev) := by
  induction hn : i.length using Nat.strongRecOn generalizing i with
  | _ n ih =>
    intro prev
    unfold parseRespVars
    split
    · rfl
    · split
      · rename_i vb rest hp
        have hlt := parseRespVar_rest hp
        rw [dif_pos hlt]
        have := ih rest.length (by omega) rest rfl (some vb.oid)
        split
        · rfl
        · rfl
        · rename_i w hw; rw [hw] at this; exact absurd this (np_panic w)
      · rfl
      · rename_i w hw
        have := parseRespVar_np i prev; rw [hw] at this; exact absurd this (np_panic w)

theorem getTryFrom_np (i : Bytes) : NP (getTryFrom i) := by
  unfold getTryFrom
  apply np_bind (fromBer_np _ intDecoder_safe i); intro ⟨_, t1⟩ _
  apply np_bind (fromBer_np _ intDecoder_safe t1); intro ⟨es, t2⟩ _
  simp only
  split
  · rfl
  · apply np_bind (fromBer_np _ intDecoder_safe t2); intro ⟨ei, t3⟩ _
    simp only
    split
    · rfl
    · apply np_bind (fromBer_np _ sequenceDecoder_safe t3); intro ⟨vb, t4⟩ _
      simp only
      split
      · rfl
      · apply np_bind (parseVars_np vb); intro _ _; rfl

theorem getBulkTryFrom_np (i : Bytes) : NP (getBulkTryFrom i) := by
  unfold getBulkTryFrom
  apply np_bind (fromBer_np _ intDecoder_safe i); intro ⟨_, t1⟩ _
  apply np_bind (fromBer_np _ intDecoder_safe t1); intro ⟨_, t2⟩ _
  apply np_bind (fromBer_np _ intDecoder_safe t2); intro ⟨_, t3⟩ _
  apply np_bind (fromBer_np _ sequenceDecoder_safe t3); intro ⟨vb, t4⟩ _
  simp only
  split
  · rfl
  · apply np_bind (parseVars_np vb); intro _ _; rfl

theorem getResponseTryFrom_np (i : Bytes) : NP (getResponseTryFrom i) := by
  unfold getResponseTryFrom
  apply np_bind (fromBer_np _ intDecoder_safe i); intro ⟨_, t1⟩ _
  apply np_bind (fromBer_np _ intDecoder_safe t1); intro ⟨_, t2⟩ _
  apply np_bind (fromBer_np _ intDecoder_safe t2); intro ⟨_, t3⟩ _
  apply np_bind (fromBer_np _ sequenceDecoder_safe t3); intro ⟨vb, t4⟩ _
  simp only
  split
  · rfl
  · apply np_bind (parseRespVars_np vb none); intro _ _; rfl

theorem pduTryFrom_np (i : Bytes) : NP (pduTryFrom i) := by
  unfold pduTryFrom
  apply np_bind (optionFromBer_np i); intro ⟨⟨tag, body⟩, _⟩ _
  simp only
  split
  · apply np_bind (getTryFrom_np body); intro ⟨_, _⟩ _; rfl
  · split
    · apply np_bind (getTryFrom_np body); intro ⟨_, _⟩ _; rfl
    · split
      · exact getResponseTryFrom_np body
      · split
        · apply np_bind (getBulkTryFrom_np body); intro ⟨_, _, _, _⟩ _; rfl
        · split <;> rfl

theorem communityMsgTryFrom_np (version : Nat) (i : Bytes) : NP (communityMsgTryFrom version i) := by
  unfold communityMsgTryFrom
  apply np_bind (fromBer_np _ sequenceDecoder_safe i); intro ⟨env, t⟩ _
  simp only
  split
  · rfl
  · apply np_bind (fromBer_np _ intDecoder_safe env); intro ⟨vc, t1⟩ _
    simp only
    split
    · rfl
    · apply np_bind (fromBer_np _ octetsDecoder_safe t1); intro ⟨c, t2⟩ _
      apply np_bind (pduTryFrom_np t2); intro _ _; rfl

theorem usmTryFrom_np (i : Bytes) : NP (usmTryFrom i) := by
  unfold usmTryFrom
  apply np_bind (fromBer_np _ sequenceDecoder_safe i); intro ⟨env, t⟩ _
  simp only
  split
  · rfl
  · apply np_bind (fromBer_np _ octetsDecoder_safe env); intro ⟨_, t1⟩ _
    apply np_bind (fromBer_np _ intDecoder_safe t1); intro ⟨_, t2⟩ _
    apply np_bind (fromBer_np _ intDecoder_safe t2); intro ⟨_, t3⟩ _
    apply np_bind (fromBer_np _ octetsDecoder_safe t3); intro ⟨_, t4⟩ _
    apply np_bind (fromBer_np _ octetsDecoder_safe t4); intro ⟨_, t5⟩ _
    apply np_bind (fromBer_np _ octetsDecoder_safe t5); intro ⟨_, _⟩ _
    rfl

theorem scopedTryFrom_np (i : Bytes) : NP (scopedTryFrom i) := by
  unfold scopedTryFrom
  apply np_bind (fromBer_np _ sequenceDecoder_safe i); intro ⟨env, _⟩ _
  apply np_bind (fromBer_np _ octetsDecoder_safe env); intro ⟨_, t1⟩ _
  apply np_bind (fromBer_np _ octetsDecoder_safe t1); intro ⟨_, t2⟩ _
  apply np_bind (pduTryFrom_np t2); intro _ _; rfl

theorem msgDataTryFrom_np (i : Bytes) : NP (msgDataTryFrom i) := by
  unfold msgDataTryFrom
  split
  · rfl
  · split
    · apply np_bind (fromBer_np _ octetsDecoder_safe _); intro ⟨_, _⟩ _; rfl
    · apply np_bind (scopedTryFrom_np _); intro _ _; rfl

theorem v3TryFrom_np (i : Bytes) : NP (v3TryFrom i) := by
  unfold v3TryFrom
  apply np_bind (fromBer_np _ sequenceDecoder_safe i); intro ⟨env, t⟩ _
  simp only
  split
  · rfl
  · apply np_bind (fromBer_np _ intDecoder_safe env); intro ⟨vc, t1⟩ _
    simp only
    split
    · rfl
    · apply np_bind (fromBer_np _ sequenceDecoder_safe t1); intro ⟨hdrEnv, spTail⟩ _
      apply np_bind (fromBer_np _ intDecoder_safe hdrEnv); intro ⟨_, t2⟩ _
      apply np_bind (fromBer_np _ intDecoder_safe t2); intro ⟨_, t3⟩ _
      apply np_bind (fromBer_np _ octetsDecoder_safe t3); intro ⟨flagsData, t4⟩ _
      simp only
      split
      · rfl
      · rename_i hfl
        apply np_bind (idx_np (by simp only [ne_eq, Decidable.not_not] at hfl; omega)); intro _ _
        apply np_bind (fromBer_np _ intDecoder_safe t4); intro ⟨sm, _⟩ _
        simp only
        split
        · rfl
        · apply np_bind (fromBer_np _ octetsDecoder_safe spTail); intro ⟨sp, t5⟩ _
          apply np_bind (usmTryFrom_np sp); intro _ _
          apply np_bind (msgDataTryFrom_np t5); intro _ _
          rfl

end GufoSnmp
