import GufoSnmp.Lemmas.IntCodec
import GufoSnmp.Lemmas.Extent
/-!
# Round trip: the library's decoders invert its encoders
-/
namespace GufoSnmp
open Gen Outcome

/-- header denoted by a single identifier octet and a length -/
def hdrOf (tag : UInt8) (len : Nat) : Header :=
  { cls := tag.toNat / 64, constructed := (tag.toNat / 32) % 2 == 1, tag := tag.toNat % 32, length := len }

/-- `parseHeader` inverts `push_tag_len` for every low-tag identifier and every length below
65536 (all three forms the encoder uses) -/
theorem parseHeader_tagLen (tag : UInt8) (ht : tag.toNat % 32 ≠ 31) (v : Nat) (hv : v < 65536)
    (tail : Bytes) (hl : v ≤ tail.length) :
    parseHeader (tagLenBytes tag v ++ tail) = .ok (hdrOf tag v, tail) := by
  unfold tagLenBytes
  split
  · rename_i h
    simp only [List.cons_append, List.nil_append]
    unfold parseHeader
    simp only [if_neg ht, bind_ok]
    have e : (UInt8.ofNat (v % 256)).toNat = v := by rw [ofNat_toNat (by omega)]; omega
    simp only [e, if_pos h, bind_ok]
    rw [if_neg (by omega)]; rfl
  · split
    · rename_i h1 h2
      simp only [List.cons_append, List.nil_append]
      unfold parseHeader
      simp only [if_neg ht, bind_ok]
      have e : (UInt8.ofNat (v % 256)).toNat = v := by rw [ofNat_toNat (by omega)]; omega
      have e81 : (0x81 : UInt8).toNat = 129 := rfl
      simp only [e81]
      rw [if_neg (by omega)]
      simp only [lenLoop, e]
      simp only [bind_ok]
      rw [if_neg (by omega)]
      simp [hdrOf]
    · rename_i h1 h2
      simp only [List.cons_append, List.nil_append]
      unfold parseHeader
      simp only [if_neg ht, bind_ok]
      have ehi : (UInt8.ofNat (v / 256 % 256)).toNat = v / 256 := by rw [ofNat_toNat (by omega)]; omega
      have elo : (UInt8.ofNat (v % 256)).toNat = v % 256 := ofNat_toNat (by omega)
      have e82 : (0x82 : UInt8).toNat = 130 := rfl
      simp only [e82]
      rw [if_neg (by omega)]
      simp only [lenLoop, ehi, elo]
      simp only [bind_ok]
      have : (0 * 256 % 2 ^ 64 + v / 256) * 256 % 2 ^ 64 + v % 256 = v := by omega
      rw [this, if_neg (by omega)]
      rfl

/-- generic `from_ber` on a TLV written by the library -/
theorem fromBer_tlv {α} (d : Decoder α) (tag : UInt8) (ht : tag.toNat % 32 ≠ 31)
    (htag : tag.toNat % 32 = d.tag)
    (hform : ((tag.toNat / 32) % 2 == 1) = true → d.allowConstructed = true)
    (hform' : ((tag.toNat / 32) % 2 == 1) = false → d.allowPrimitive = true)
    (content rest : Bytes) (hc : content.length < 65536) :
    fromBer d (tlvBytes tag content ++ rest) =
      (d.decode (content ++ rest) (hdrOf tag content.length)).bind (fun v => .ok (v, rest)) := by
  unfold fromBer tlvBytes
  have hlen : ¬ (tagLenBytes tag content.length ++ content ++ rest).length < 2 := by
    unfold tagLenBytes; split <;> (try split) <;> simp <;> omega
  rw [if_neg hlen, List.append_assoc, parseHeader_tagLen tag ht _ hc _ (by simp)]
  simp only [bind_ok]
  have hcond : ((hdrOf tag content.length).tag ≠ d.tag
      || ((hdrOf tag content.length).constructed && !d.allowConstructed)
      || (!(hdrOf tag content.length).constructed && !d.allowPrimitive)) = false := by
    simp only [hdrOf, htag]
    cases hcons : ((tag.toNat / 32) % 2 == 1) with
    | true => simp [hform hcons]
    | false => simp [hform' hcons]
  split
  · rename_i hc; rw [hcond] at hc; cases hc
  · have hlen2 : (hdrOf tag content.length).length = content.length := rfl
    rw [sliceFrom_ok (by rw [hlen2]; simp)]
    simp only [bind_ok, hlen2, List.drop_left]
    cases d.decode (content ++ rest) _ <;> rfl

end GufoSnmp

namespace GufoSnmp
open Gen Outcome

theorem take_left' (a b : Bytes) : (a ++ b).take a.length = a := List.take_left

theorem fromBer_encInt (v : Int) (h1 : -(2 ^ 63) ≤ v) (h2 : v < 2 ^ 63) (rest : Bytes) :
    fromBer intDecoder (encInt v ++ rest) = .ok (v, rest) := by
  obtain ⟨hv, hl1, hl8⟩ := intContent_spec v h1 h2
  unfold encInt
  have := fromBer_tlv intDecoder (UInt8.ofNat tagInt) (by decide) (by decide) (by decide) (by decide)
    (intContent v) rest (by omega)
  unfold tlvBytes at this
  rw [this]
  show (decodeInt (intContent v ++ rest) (hdrOf _ _)).bind _ = _
  rw [decodeInt_twos _ _ (by exact hl1) (by exact hl8) (by simp [hdrOf])]
  simp only [hdrOf, take_left', hv]
  rfl

theorem fromBer_slice (d : Decoder Bytes) (hd : d.decode = decodeSlice) (tag : UInt8)
    (ht : tag.toNat % 32 ≠ 31) (htag : tag.toNat % 32 = d.tag)
    (hform : ((tag.toNat / 32) % 2 == 1) = true → d.allowConstructed = true)
    (hform' : ((tag.toNat / 32) % 2 == 1) = false → d.allowPrimitive = true)
    (content rest : Bytes) (hc : content.length < 65536) :
    fromBer d (tlvBytes tag content ++ rest) = .ok (content, rest) := by
  rw [fromBer_tlv d tag ht htag hform hform' content rest hc, hd]
  unfold decodeSlice
  rw [sliceTo_ok (by simp [hdrOf])]
  simp only [hdrOf, take_left']
  rfl

theorem fromBer_encOid (oid rest : Bytes) (hc : oid.length < 65536) :
    fromBer oidDecoder (encOid oid ++ rest) = .ok (oid, rest) :=
  fromBer_slice oidDecoder rfl _ (by decide) (by decide) (by decide) (by decide) oid rest hc

theorem fromBer_seq (content rest : Bytes) (hc : content.length < 65536) :
    fromBer sequenceDecoder (tlvBytes 0x30 content ++ rest) = .ok (content, rest) :=
  fromBer_slice sequenceDecoder rfl _ (by decide) (by decide) (by decide) (by decide) content rest hc

theorem fromBer_octets (content rest : Bytes) (hc : content.length < 65536) :
    fromBer octetsDecoder (tlvBytes (UInt8.ofNat tagOctetString) content ++ rest) = .ok (content, rest) :=
  fromBer_slice octetsDecoder rfl _ (by decide) (by decide) (by decide) (by decide) content rest hc

theorem fromBer_encNull (rest : Bytes) : fromBer nullDecoder (encNull ++ rest) = .ok ((), rest) := by
  have := fromBer_tlv nullDecoder 5 (by decide) (by decide) (by decide) (by decide) [] rest (by simp)
  simpa [tlvBytes, tagLenBytes, encNull, decodeNull, hdrOf, nullDecoder, Outcome.bind] using this

theorem tlvBytes_length_ge (tag : UInt8) (c : Bytes) : c.length + 2 ≤ (tlvBytes tag c).length := by
  unfold tlvBytes tagLenBytes
  split <;> (try split) <;> simp <;> omega

theorem parseVar_encVarBind (oid rest : Bytes) (hc : (encVarBind oid).length < 65536) :
    parseVar (encVarBind oid ++ rest) = .ok (oid, rest) := by
  unfold parseVar encVarBind at *
  have h1 := tlvBytes_length_ge 0x30 (encOid oid ++ encNull)
  have h2 := tlvBytes_length_ge (UInt8.ofNat tagObjectId) oid
  have hlen : (encOid oid ++ encNull).length < 65536 := by omega
  have holen : oid.length < 65536 := by
    simp only [List.length_append, encOid] at hlen; omega
  rw [fromBer_seq _ _ hlen]
  simp only [bind_ok]
  rw [fromBer_encOid _ _ holen]
  simp only [bind_ok]
  have := fromBer_encNull []
  simp only [List.append_nil] at this
  rw [this]
  rfl

theorem encVarBind_length_pos (oid : Bytes) : 0 < (encVarBind oid).length := by
  have := tlvBytes_length_ge 0x30 (encOid oid ++ encNull)
  unfold encVarBind; omega

theorem parseVars_encVars : ∀ (vars : List Bytes), (encVars vars).length < 65536 →
    parseVars (encVars vars) = .ok vars
  | [], _ => by
    unfold parseVars; simp [encVars]
  | oid :: more, hc => by
    have he : encVars (oid :: more) = encVarBind oid ++ encVars more := by simp [encVars]
    rw [he] at hc ⊢
    simp only [List.length_append] at hc
    unfold parseVars
    have hne : (encVarBind oid ++ encVars more).isEmpty = false := by
      have := encVarBind_length_pos oid
      cases h : encVarBind oid ++ encVars more with
      | nil =>
        have hl : (encVarBind oid ++ encVars more).length = 0 := by rw [h]; rfl
        simp only [List.length_append] at hl; omega
      | cons _ _ => rfl
    rw [hne]
    simp only [Bool.false_eq_true, if_false]
    rw [parseVar_encVarBind _ _ (by omega)]
    simp only
    have hlt : (encVars more).length < (encVarBind oid ++ encVars more).length := by
      have := encVarBind_length_pos oid
      simp only [List.length_append]; omega
    rw [dif_pos hlt, parseVars_encVars more (by omega)]

theorem encVarList_ge (vars : List Bytes) : (encVars vars).length + 2 ≤ (encVarList vars).length :=
  tlvBytes_length_ge _ _

theorem getTryFrom_encGetBody (r : Int) (h1 : -(2 ^ 63) ≤ r) (h2 : r < 2 ^ 63) (vars : List Bytes)
    (hc : (encGetBody r vars).length < 65536) : getTryFrom (encGetBody r vars) = .ok (r, vars) := by
  unfold getTryFrom encGetBody at *
  have hge := encVarList_ge vars
  simp only [List.length_append, List.length_cons, List.length_nil] at hc
  rw [fromBer_encInt r h1 h2]
  simp only [bind_ok]
  have hz : ([2, 1, 0, 2, 1, 0] ++ encVarList vars : Bytes) = encInt 0 ++ (encInt 0 ++ encVarList vars) := by
    have : encInt 0 = [2, 1, 0] := by decide
    rw [this]; rfl
  rw [hz, fromBer_encInt 0 (by decide) (by decide)]
  simp only [bind_ok]
  rw [if_neg (by decide), fromBer_encInt 0 (by decide) (by decide)]
  simp only [bind_ok]
  rw [if_neg (by decide)]
  have := fromBer_seq (encVars vars) [] (by omega)
  simp only [List.append_nil] at this
  unfold encVarList
  rw [this]
  simp only [bind_ok, List.isEmpty_nil, Bool.not_true, Bool.false_eq_true, if_false]
  rw [parseVars_encVars vars (by omega)]
  rfl

theorem getBulkTryFrom_encBulkBody (r nr mr : Int) (hr : -(2 ^ 63) ≤ r ∧ r < 2 ^ 63)
    (hnr : -(2 ^ 63) ≤ nr ∧ nr < 2 ^ 63) (hmr : -(2 ^ 63) ≤ mr ∧ mr < 2 ^ 63) (vars : List Bytes)
    (hc : (encBulkBody r nr mr vars).length < 65536) :
    getBulkTryFrom (encBulkBody r nr mr vars) = .ok (r, nr, mr, vars) := by
  unfold getBulkTryFrom encBulkBody at *
  have hge := encVarList_ge vars
  simp only [List.length_append] at hc
  rw [fromBer_encInt r hr.1 hr.2]; simp only [bind_ok]
  rw [fromBer_encInt nr hnr.1 hnr.2]; simp only [bind_ok]
  rw [fromBer_encInt mr hmr.1 hmr.2]; simp only [bind_ok]
  have := fromBer_seq (encVars vars) [] (by omega)
  simp only [List.append_nil] at this
  unfold encVarList
  rw [this]
  simp only [bind_ok, List.isEmpty_nil, Bool.not_true, Bool.false_eq_true, if_false]
  rw [parseVars_encVars vars (by omega)]
  rfl

theorem optionFromBer_tlv (tag : UInt8) (ht : tag.toNat % 32 ≠ 31)
    (hcons : ((tag.toNat / 32) % 2 == 1) = true) (hcls : tag.toNat / 64 = 2 ∨ tag.toNat / 64 = 0)
    (content rest : Bytes) (hc : content.length < 65536) (h1 : 1 ≤ content.length) :
    optionFromBer (tlvBytes tag content ++ rest) = .ok ((tag.toNat % 32, content), rest) := by
  unfold optionFromBer tlvBytes
  have hlen : ¬ (tagLenBytes tag content.length ++ content ++ rest).length < 3 := by
    unfold tagLenBytes; split <;> (try split) <;> simp <;> omega
  rw [if_neg hlen, List.append_assoc, parseHeader_tagLen tag ht _ hc _ (by simp)]
  simp only [bind_ok]
  have hcond : (!(hdrOf tag content.length).constructed
      || ((hdrOf tag content.length).cls ≠ 2 && (hdrOf tag content.length).cls ≠ 0)) = false := by
    simp only [hdrOf, hcons]
    rcases hcls with h | h <;> simp [h]
  split
  · rename_i hc'; rw [hcond] at hc'; cases hc'
  · have hlen2 : (hdrOf tag content.length).length = content.length := rfl
    rw [sliceFrom_ok (by rw [hlen2]; simp), sliceTo_ok (by rw [hlen2]; simp)]
    simp only [bind_ok, hlen2, List.drop_left, take_left', hdrOf]
    rfl

/-- the requests the library encodes, within the `i64` range it accepts -/
def Pdu.InRange : Pdu → Prop
  | .getRequest r _ => -(2 ^ 63) ≤ r ∧ r < 2 ^ 63
  | .getNextRequest r _ => -(2 ^ 63) ≤ r ∧ r < 2 ^ 63
  | .getBulkRequest r nr mr _ =>
    (-(2 ^ 63) ≤ r ∧ r < 2 ^ 63) ∧ (-(2 ^ 63) ≤ nr ∧ nr < 2 ^ 63) ∧ (-(2 ^ 63) ≤ mr ∧ mr < 2 ^ 63)
  | _ => False

theorem encGetBody_len_pos (r : Int) (vars : List Bytes) : 1 ≤ (encGetBody r vars).length := by
  unfold encGetBody; simp; omega

theorem encBulkBody_len_pos (r nr mr : Int) (vars : List Bytes) : 1 ≤ (encBulkBody r nr mr vars).length := by
  unfold encBulkBody
  have := encVarList_ge vars
  simp only [List.length_append]; omega

theorem pduTryFrom_encPdu (pdu : Pdu) (enc rest : Bytes) (hr : pdu.InRange) (he : encPdu pdu = some enc)
    (hc : enc.length < 65536) : pduTryFrom (enc ++ rest) = .ok pdu := by
  unfold pduTryFrom
  cases pdu with
  | getRequest r vars =>
    simp only [encPdu, Option.some.injEq] at he; subst he
    have hge := tlvBytes_length_ge (UInt8.ofNat ctxGet) (encGetBody r vars)
    rw [optionFromBer_tlv _ (by decide) (by decide) (by decide) _ _ (by omega) (encGetBody_len_pos r vars)]
    simp only [bind_ok]
    rw [if_pos (by decide), getTryFrom_encGetBody r hr.1 hr.2 vars (by omega)]
    rfl
  | getNextRequest r vars =>
    simp only [encPdu, Option.some.injEq] at he; subst he
    have hge := tlvBytes_length_ge (UInt8.ofNat ctxGetNext) (encGetBody r vars)
    rw [optionFromBer_tlv _ (by decide) (by decide) (by decide) _ _ (by omega) (encGetBody_len_pos r vars)]
    simp only [bind_ok]
    rw [if_neg (by decide), if_pos (by decide), getTryFrom_encGetBody r hr.1 hr.2 vars (by omega)]
    rfl
  | getBulkRequest r nr mr vars =>
    simp only [encPdu, Option.some.injEq] at he; subst he
    have hge := tlvBytes_length_ge (UInt8.ofNat ctxGetBulk) (encBulkBody r nr mr vars)
    rw [optionFromBer_tlv _ (by decide) (by decide) (by decide) _ _ (by omega) (encBulkBody_len_pos r nr mr vars)]
    simp only [bind_ok]
    rw [if_neg (by decide), if_neg (by decide), if_neg (by decide), if_pos (by decide),
      getBulkTryFrom_encBulkBody r nr mr hr.1 hr.2.1 hr.2.2 vars (by omega)]
    rfl
  | getResponse _ _ _ _ => simp [encPdu] at he
  | report _ => simp [encPdu] at he

theorem communityMsg_roundtrip (version : Nat) (hv : version < 128) (m : CommunityMsg) (enc : Bytes)
    (hr : m.pdu.InRange) (he : encCommunityMsg version m = some enc) (hc : enc.length < 65536) :
    communityMsgTryFrom version enc = .ok m := by
  unfold encCommunityMsg at he
  cases hp : encPdu m.pdu with
  | none => rw [hp] at he; cases he
  | some p =>
    rw [hp] at he; simp only [Option.map_some, Option.some.injEq] at he; subst he
    have hge := tlvBytes_length_ge 0x30 (encCommunityBody version m.community p)
    have hge2 := tlvBytes_length_ge (UInt8.ofNat tagOctetString) m.community
    have hbody : (encCommunityBody version m.community p).length < 65536 := by omega
    unfold communityMsgTryFrom
    have := fromBer_seq (encCommunityBody version m.community p) [] hbody
    simp only [List.append_nil] at this
    rw [this]
    simp only [bind_ok, List.isEmpty_nil, Bool.not_true, Bool.false_eq_true, if_false]
    unfold encCommunityBody at hbody ⊢
    simp only [List.length_append, List.length_cons, List.length_nil] at hbody
    have hver : ([UInt8.ofNat tagInt, 1, UInt8.ofNat version] : Bytes) = encInt version := by
      unfold encInt intContent
      by_cases h0 : (version : Int) = 0
      · have : version = 0 := by omega
        subst this; decide
      · rw [if_neg h0, if_pos (by omega)]
        have : posBytes (version : Int).toNat = [UInt8.ofNat version] := by
          unfold posBytes
          have : (version : Int).toNat = version := by omega
          rw [this, dif_pos (by omega), if_neg (by omega), Nat.mod_eq_of_lt (by omega)]
        rw [this]; rfl
    rw [hver, fromBer_encInt version (by omega) (by omega)]
    simp only [bind_ok]
    rw [if_neg (by simp), fromBer_octets _ _ (by omega)]
    simp only [bind_ok]
    have := pduTryFrom_encPdu m.pdu p [] hr hp (by omega)
    simp only [List.append_nil] at this
    rw [this]
    rfl

end GufoSnmp
