import GufoSnmp.Lemmas.RoundTrip
/-!
# Minimality (DER) of what the encoders write
-/
namespace GufoSnmp
open Gen Outcome

/-- X.690 §8.3.2: the first nine bits of an INTEGER content are neither all zero nor all one -/
def MinimalInt : Bytes → Prop
  | b0 :: b1 :: _ => ¬(b0.toNat = 0 ∧ b1.toNat < 128) ∧ ¬(b0.toNat = 255 ∧ 128 ≤ b1.toNat)
  | _ => True

theorem minimal_append (bs : Bytes) (x : UInt8) (h2 : 2 ≤ bs.length) (hm : MinimalInt bs) :
    MinimalInt (bs ++ [x]) := by
  match bs, h2 with
  | b0 :: b1 :: r, _ => exact hm

theorem posBytes_small (m : Nat) (h : m < 128) : posBytes m = [UInt8.ofNat m] := by
  unfold posBytes
  rw [dif_pos (by omega), if_neg (by omega), Nat.mod_eq_of_lt (by omega)]

theorem posBytes_len2 (m : Nat) (h : 128 ≤ m) : 2 ≤ (posBytes m).length := by
  unfold posBytes
  split
  · rw [if_pos (by omega)]; simp
  · have := posBytes_ne_nil (m / 256)
    cases hp : posBytes (m / 256) with
    | nil => exact absurd hp this
    | cons _ _ => simp

theorem posBytes_minimal : ∀ (n : Nat), MinimalInt (posBytes n) := by
  intro n
  induction n using Nat.strongRecOn with
  | _ n ih =>
    unfold posBytes
    split
    · split
      · rename_i hge
        simp only [MinimalInt]
        rw [ofNat_toNat (by omega)]
        have h0 : (0 : UInt8).toNat = 0 := rfl
        rw [h0]
        exact ⟨by omega, by omega⟩
      · trivial
    · rename_i hge
      by_cases hs : n / 256 < 128
      · rw [posBytes_small _ hs]
        simp only [List.cons_append, List.nil_append, MinimalInt]
        rw [ofNat_toNat (by omega), ofNat_toNat (by omega)]
        constructor <;> omega
      · exact minimal_append _ _ (posBytes_len2 _ (by omega)) (ih (n / 256) (by omega))

theorem negBytes_single (v : Int) (h1 : -128 ≤ v) (h2 : v < 0) :
    negBytes v = [UInt8.ofNat (v % 256).toNat] := by
  unfold negBytes
  rw [dif_neg (by omega), if_pos (by constructor <;> omega)]

theorem negBytes_len2 (v : Int) (h : v < -128) : 2 ≤ (negBytes v).length := by
  unfold negBytes
  rw [dif_neg (by omega), if_neg (by omega)]
  have := negBytes_ne_nil (v / 256) (by omega)
  cases hp : negBytes (v / 256) with
  | nil => exact absurd hp this
  | cons _ _ => simp

theorem negBytes_minimal : ∀ (m : Nat) (v : Int), v.natAbs = m → v < 0 → MinimalInt (negBytes v) := by
  intro m
  induction m using Nat.strongRecOn with
  | _ m ih =>
    intro v hm hv
    by_cases hs : -128 ≤ v
    · rw [negBytes_single v hs hv]; trivial
    · unfold negBytes
      rw [dif_neg (by omega), if_neg (by omega)]
      by_cases hs2 : -128 ≤ v / 256
      · rw [negBytes_single _ hs2 (by omega)]
        simp only [List.cons_append, List.nil_append, MinimalInt]
        have hm0 : 0 ≤ v % 256 := Int.emod_nonneg v (by omega)
        have hm1 : v % 256 < 256 := Int.emod_lt_of_pos v (by omega)
        have hq0 : 0 ≤ (v / 256) % 256 := Int.emod_nonneg _ (by omega)
        have hq1 : (v / 256) % 256 < 256 := Int.emod_lt_of_pos _ (by omega)
        rw [ofNat_toNat (by omega), ofNat_toNat (by omega)]
        constructor
        · omega
        · intro ⟨ha, hb⟩
          -- first octet 0xff means v / 256 = -1; then the low octet must be below 128
          omega
      · exact minimal_append _ _ (negBytes_len2 _ (by omega))
          (ih (v / 256).natAbs (by omega) (v / 256) rfl (by omega))

theorem intContent_minimal (v : Int) : MinimalInt (intContent v) := by
  unfold intContent
  split
  · trivial
  · split
    · exact posBytes_minimal _
    · exact negBytes_minimal _ v rfl (by omega)

/-- X.690 §8.1.3: shortest definite length octets -/
def minimalLen (v : Nat) : Bytes :=
  if v < 128 then [UInt8.ofNat v]
  else if v < 256 then [0x81, UInt8.ofNat v]
  else [0x82, UInt8.ofNat (v / 256), UInt8.ofNat (v % 256)]

theorem tagLenBytes_minimal (tag : UInt8) (v : Nat) (hv : v < 65536) :
    tagLenBytes tag v = tag :: minimalLen v := by
  unfold tagLenBytes minimalLen
  split
  · rw [Nat.mod_eq_of_lt (by omega)]
  · split
    · rw [Nat.mod_eq_of_lt (by omega)]
    · rw [Nat.mod_eq_of_lt (show v / 256 < 256 by omega)]

end GufoSnmp
