import GufoSnmp.Lemmas.CmpArcs
import GufoSnmp.Lemmas.OidLemmas
import GufoSnmp.Spec.Agent
/-!
# Canonical OID encodings: byte-level prefix and `cmp_arcs` order agree with the arc-level ones
-/
namespace GufoSnmp
open Gen Spec

/-! ## shape of `b128` -/

theorem b128hi_ge : ∀ (k : Nat), ∀ c ∈ b128hi k, 128 ≤ c.toNat := by
  intro k
  induction k using Nat.strongRecOn with
  | _ k ih =>
    intro c hc
    by_cases h0 : k = 0
    · subst h0; rw [b128hi_zero] at hc; simp at hc
    · rw [b128hi_pos k h0] at hc
      simp only [List.mem_append, List.mem_singleton] at hc
      rcases hc with hc | rfl
      · exact ih (k / 128) (by omega) c hc
      · rw [ofNat_toNat (by omega)]; omega

/-- for k > 0 the first octet of the high part is not the padding octet 0x80 -/
theorem b128hi_head : ∀ (k : Nat), k ≠ 0 → ∃ h t, b128hi k = h :: t ∧ h.toNat ≠ 128 := by
  intro k
  induction k using Nat.strongRecOn with
  | _ k ih =>
    intro h0
    rw [b128hi_pos k h0]
    by_cases h1 : k / 128 = 0
    · rw [h1, b128hi_zero]
      refine ⟨_, [], rfl, ?_⟩
      rw [ofNat_toNat (by omega)]; omega
    · obtain ⟨h, t, ht, hne⟩ := ih (k / 128) (by omega) h1
      exact ⟨h, t ++ [UInt8.ofNat (k % 128 + 128)], by rw [ht]; rfl, hne⟩

theorem splitArcRaw_hi : ∀ (pre : Bytes), (∀ c ∈ pre, 128 ≤ c.toNat) → ∀ (l : UInt8) (rest : Bytes),
    l.toNat < 128 → splitArcRaw (pre ++ l :: rest) = (pre ++ [l], rest)
  | [], _, l, rest, hl => by
    simp only [List.nil_append]
    unfold splitArcRaw
    rw [if_pos hl]
  | c :: pre, h, l, rest, hl => by
    simp only [List.cons_append]
    unfold splitArcRaw
    rw [if_neg (by have := h c (by simp); omega)]
    rw [splitArcRaw_hi pre (fun x hx => h x (by simp [hx])) l rest hl]

/-- a canonical sub-identifier is split off unchanged -/
theorem splitArc_b128 (n : Nat) (rest : Bytes) : splitArc (b128 n ++ rest) = (b128 n, rest) := by
  unfold splitArc b128
  rw [List.append_assoc, List.singleton_append,
    splitArcRaw_hi _ (b128hi_ge (n / 128)) _ rest (by rw [ofNat_toNat (by omega)]; omega)]
  simp only
  by_cases h0 : n / 128 = 0
  · rw [h0, b128hi_zero]
    simp only [List.nil_append, List.dropWhile_cons]
    rw [ofNat_toNat (by omega)]
    rw [if_neg (by simp; omega)]
  · obtain ⟨h, t, ht, hne⟩ := b128hi_head (n / 128) h0
    rw [ht]
    simp only [List.cons_append, List.dropWhile_cons]
    rw [if_neg (by simpa using hne)]

theorem b128_ne_nil (n : Nat) : b128 n ≠ [] := by unfold b128; simp

/-- value of base-128 digits -/
def val128 (bs : Bytes) : Nat := bs.foldl (fun acc b => acc * 128 + b.toNat % 128) 0

theorem val128_hi : ∀ (k : Nat), (b128hi k).foldl (fun acc b => acc * 128 + b.toNat % 128) 0 = k := by
  intro k
  induction k using Nat.strongRecOn with
  | _ k ih =>
    by_cases h0 : k = 0
    · subst h0; rw [b128hi_zero]; rfl
    · rw [b128hi_pos k h0, List.foldl_append, ih (k / 128) (by omega)]
      simp only [List.foldl_cons, List.foldl_nil]
      rw [ofNat_toNat (by omega)]; omega

theorem val128_b128 (n : Nat) : val128 (b128 n) = n := by
  unfold val128 b128
  rw [List.foldl_append, val128_hi]
  simp only [List.foldl_cons, List.foldl_nil]
  rw [ofNat_toNat (by omega)]; omega

theorem b128_inj (m n : Nat) (h : b128 m = b128 n) : m = n := by
  have := congrArg val128 h
  rwa [val128_b128, val128_b128] at this

/-! ## order -/

theorem cmpBytes_prefix : ∀ (p a b : Bytes), cmpBytes (p ++ a) (p ++ b) = cmpBytes a b
  | [], _, _ => rfl
  | c :: p, a, b => by
    simp only [List.cons_append]
    rw [cmpBytes, if_neg (by omega), if_neg (by omega)]
    exact cmpBytes_prefix p a b

theorem cmpBytes_head_gt (x y : UInt8) (s t : Bytes) (h : y.toNat < x.toNat) :
    cmpBytes (x :: s) (y :: t) = .gt := by
  rw [cmpBytes, if_neg (by omega), if_pos h]

theorem b128hi_len_pos (k : Nat) (h : k ≠ 0) : 0 < (b128hi k).length := by
  obtain ⟨hd, t, ht, _⟩ := b128hi_head k h
  rw [ht]; simp

/-- the high parts grow with the number: either strictly longer, or equally long and
lexicographically greater at some octet (whatever follows) -/
theorem b128hi_mono : ∀ (q p : Nat), p < q →
    (b128hi p).length < (b128hi q).length ∨
    ((b128hi p).length = (b128hi q).length ∧ ∀ s t, cmpBytes (b128hi q ++ s) (b128hi p ++ t) = .gt) := by
  intro q
  induction q using Nat.strongRecOn with
  | _ q ih =>
    intro p hpq
    have hq0 : q ≠ 0 := by omega
    by_cases hp0 : p = 0
    · subst hp0
      left; rw [b128hi_zero]; exact b128hi_len_pos q hq0
    · rw [b128hi_pos q hq0, b128hi_pos p hp0]
      simp only [List.length_append, List.length_singleton]
      by_cases heq : p / 128 = q / 128
      · right
        rw [heq]
        refine ⟨rfl, fun s t => ?_⟩
        rw [List.append_assoc, List.append_assoc, cmpBytes_prefix]
        apply cmpBytes_head_gt
        rw [ofNat_toNat (by omega), ofNat_toNat (by omega)]; omega
      · rcases ih (q / 128) (by omega) (p / 128) (by omega) with hl | ⟨hl, hc⟩
        · left; omega
        · right
          refine ⟨by omega, fun s t => ?_⟩
          rw [List.append_assoc, List.append_assoc]
          exact hc _ _

/-- canonical sub-identifiers compare as numbers -/
theorem chunkCmp_b128_gt (m n : Nat) (h : m < n) : chunkCmp (b128 n) (b128 m) = .gt := by
  rw [chunkCmp_gt_iff]
  unfold b128
  simp only [List.length_append, List.length_singleton]
  by_cases heq : m / 128 = n / 128
  · right
    rw [heq]
    refine ⟨rfl, ?_⟩
    rw [cmpBytes_prefix]
    apply cmpBytes_head_gt
    rw [ofNat_toNat (by omega), ofNat_toNat (by omega)]; omega
  · rcases b128hi_mono (n / 128) (m / 128) (by omega) with hl | ⟨hl, hc⟩
    · left; omega
    · right; exact ⟨by omega, hc _ _⟩

/-- content octets of the arcs after the first two -/
def encTail (r : List Nat) : Bytes := (r.map b128).flatten

theorem encTail_cons (a : Nat) (r : List Nat) : encTail (a :: r) = b128 a ++ encTail r := by
  simp [encTail]

theorem cmpArcs_nonempty_nil (a0 : UInt8) (as : Bytes) : cmpArcs (a0 :: as) [] = .gt := by
  rw [cmpArcs]

/-- arc order implies `cmp_arcs` order on the encoded tails -/
theorem cmpArcs_encTail : ∀ (x y : List Nat), arcsLt x y = true → cmpArcs (encTail y) (encTail x) = .gt
  | [], [], h => by simp [arcsLt] at h
  | [], b :: bs, _ => by
    rw [encTail_cons]
    cases hb : b128 b with
    | nil => exact absurd hb (b128_ne_nil b)
    | cons c cs => simp only [List.cons_append]; exact cmpArcs_nonempty_nil _ _
  | _ :: _, [], h => by simp [arcsLt] at h
  | a :: as, b :: bs, h => by
    rw [encTail_cons, encTail_cons]
    cases hb : b128 b with
    | nil => exact absurd hb (b128_ne_nil b)
    | cons c cs =>
      cases ha : b128 a with
      | nil => exact absurd ha (b128_ne_nil a)
      | cons d ds =>
        simp only [List.cons_append]
        rw [cmpArcs_cons]
        have e1 : splitArc (c :: (cs ++ encTail bs)) = (c :: cs, encTail bs) := by
          have := splitArc_b128 b (encTail bs); rw [hb] at this; simpa using this
        have e2 : splitArc (d :: (ds ++ encTail as)) = (d :: ds, encTail as) := by
          have := splitArc_b128 a (encTail as); rw [ha] at this; simpa using this
        rw [e1, e2]
        simp only
        rw [← hb, ← ha]
        unfold arcsLt at h
        split at h
        · rename_i hlt
          have := chunkCmp_b128_gt a b hlt
          rw [if_pos (by rw [this]; decide)]; exact this
        · split at h
          · cases h
          · have hab : a = b := by omega
            subst hab
            rw [chunkCmp_refl, if_neg (by simp)]
            exact cmpArcs_encTail as bs h

/-- content octets of a valid OID -/
def encOidArcs (a0 a1 : Nat) (r : List Nat) : Bytes := UInt8.ofNat (40 * a0 + a1) :: encTail r

theorem derOid_eq (a0 a1 : Nat) (r : List Nat) : derOid (a0 :: a1 :: r) = some (encOidArcs a0 a1 r) := rfl

/-- **order**: for valid OIDs, arc order implies `cmp_arcs` order of the encodings -/
theorem cmpArcs_enc (a0 a1 : Nat) (r : List Nat) (b0 b1 : Nat) (s : List Nat)
    (ha : a0 ≤ 2 ∧ a1 ≤ 39) (hb : b0 ≤ 2 ∧ b1 ≤ 39)
    (h : arcsLt (a0 :: a1 :: r) (b0 :: b1 :: s) = true) :
    cmpArcs (encOidArcs b0 b1 s) (encOidArcs a0 a1 r) = .gt := by
  unfold encOidArcs
  rw [cmpArcs_cons]
  have sp : ∀ (v : Nat) (t : Bytes), v < 120 → splitArc (UInt8.ofNat v :: t) = ([UInt8.ofNat v], t) := by
    intro v t hv
    unfold splitArc splitArcRaw
    rw [ofNat_toNat (by omega), if_pos (by omega)]
    simp only [List.dropWhile_cons, List.dropWhile_nil]
    rw [ofNat_toNat (by omega), if_neg (by simp; omega)]
  rw [sp _ _ (by omega), sp _ _ (by omega)]
  simp only
  have hc : ∀ (u v : Nat), u < 120 → v < 120 → u < v →
      chunkCmp [UInt8.ofNat v] [UInt8.ofNat u] = .gt := by
    intro u v hu hv huv
    rw [chunkCmp_gt_iff]
    right
    refine ⟨rfl, ?_⟩
    apply cmpBytes_head_gt
    rw [ofNat_toNat (by omega), ofNat_toNat (by omega)]; exact huv
  simp only [arcsLt] at h
  by_cases h0 : a0 < b0
  · have := hc (40 * a0 + a1) (40 * b0 + b1) (by omega) (by omega) (by omega)
    rw [if_pos (by rw [this]; decide)]; exact this
  · rw [if_neg h0] at h
    by_cases h0' : b0 < a0
    · rw [if_pos h0'] at h; cases h
    · rw [if_neg h0'] at h
      have e0 : a0 = b0 := by omega
      subst e0
      by_cases h1 : a1 < b1
      · have := hc (40 * a0 + a1) (40 * a0 + b1) (by omega) (by omega) (by omega)
        rw [if_pos (by rw [this]; decide)]; exact this
      · rw [if_neg h1] at h
        by_cases h1' : b1 < a1
        · rw [if_pos h1'] at h; cases h
        · rw [if_neg h1'] at h
          have e1 : a1 = b1 := by omega
          subst e1
          rw [chunkCmp_refl, if_neg (by simp)]
          exact cmpArcs_encTail r s h

end GufoSnmp
